// Package svcrt executes the scripts of SvcCall.tla on a real client and a real server: a controller walks the script;
// client steps run on a ClientSide, handler steps are commands to the handler goroutine, which sits in ServerCall.Loop
// between commands.  The same engine drives the rpc layer itself (cmd/msvc) and the code generated for a service (the
// svc.go file the language checks put next to the registry of a generated package).
package svcrt

import (
	"bytes"
	"fmt"
	"math/rand"
	"sort"
	"sync"
	"time"

	"github.com/basecomplextech/baselibrary/status"

	"verifharness/internal/tscale"
)

type Step struct {
	Who    string `json:"who"`
	Op     string `json:"op"`
	N      int    `json:"n"`
	Expect string `json:"expect"`
}

type Script struct {
	Kind    string `json:"kind"`
	Outcome string `json:"outcome"`
	Script  []Step `json:"script"`
}

func (s *Script) String() string {
	out := s.Kind + "/" + s.Outcome + ":"
	for _, st := range s.Script {
		out += " " + st.Who + "." + st.Op
		if st.N > 0 {
			out += fmt.Sprint(st.N)
		}
	}
	return out
}

// Application-defined status the "app" outcome returns.
const (
	AppCode    = "teapot"
	AppMessage = "short and stout"
)

// AppCodes are the codes the "app" outcome cycles through, by script: an application-defined one and the library's own
// codes a handler may just as well return of its own accord while the caller is still waiting.
var AppCodes = []string{AppCode, "cancelled", "closed", "not_found", "unavailable", "error", "test"}

func appCodeOf(s *Script) string {
	h := uint32(2166136261)
	for _, c := range []byte(s.String()) {
		h = (h ^ uint32(c)) * 16777619
	}
	return AppCodes[int(h%uint32(len(AppCodes)))]
}

var OpTimeout = tscale.D(3 * time.Second)

// Payloads are the bytes of one call.
type Payloads struct {
	Req, Req2 []byte // request (nil: the method takes none), inner request of a subservice call
	Resp      []byte // response (nil: the method returns none)
	In, Out   func(n int) []byte
}

// ClientSide is the caller's half of one call.
type ClientSide interface {
	// Call issues the call.  Streaming kinds: returns once the channel is open.  Blocking kinds: returns with the outcome.
	Call() ([]byte, status.Status)
	Send(msg []byte) status.Status
	SendEnd() status.Status
	Recv() ([]byte, status.Status)
	Response() ([]byte, status.Status)
	Free()
}

// ServerOps are the handler's operations on its channel (nil entries: the method has no such operation).
type ServerOps struct {
	Request func() ([]byte, status.Status)
	Recv    func() ([]byte, status.Status)
	Send    func(msg []byte) status.Status
	SendEnd func() status.Status
	// Next hands over to the subservice; the inner method calls Inner and returns what it returns.
	Next func(inner func(req2 []byte) ([]byte, status.Status)) status.Status
}

type command struct {
	op      string
	payload []byte
	outcome string
	code    string // of the "app" outcome
}

type reply struct {
	data []byte
	st   status.Status
	note string
}

// ServerCall is one handler invocation under the controller's command.
type ServerCall struct {
	Method string
	Req    []byte
	// what handing over to the subservice returned (the outer method of a subservice call returns it)
	NextSt   status.Status
	NextDone bool
	cmds     chan command
	reps   chan reply
}

// RT connects handler invocations with the controller.
type RT struct {
	mu      sync.Mutex
	entered chan *ServerCall
	Stray   []string // handler invocations nobody waited for
	active  bool
	// Drop cuts the connection between the two ends (scripts with a lost connection)
	Drop func()
}

func NewRT() *RT { return &RT{entered: make(chan *ServerCall, 16)} }

// Enter is called by a handler method on entry; it then calls Loop.
func (rt *RT) Enter(method string, req []byte) *ServerCall {
	sc := &ServerCall{Method: method, Req: append([]byte(nil), req...), cmds: make(chan command), reps: make(chan reply)}
	rt.mu.Lock()
	active := rt.active
	if !active {
		rt.Stray = append(rt.Stray, method)
	}
	rt.mu.Unlock()
	if active {
		rt.entered <- sc
	}
	return sc
}

// Loop executes the controller's commands until "return"; it returns the response bytes and status, and panics when told to.
func (sc *ServerCall) Loop(ops ServerOps) ([]byte, status.Status) {
	for {
		var c command
		select {
		case c = <-sc.cmds:
		case <-time.After(4 * OpTimeout):
			return nil, status.Errorf("harness: handler abandoned by the controller")
		}
		switch c.op {
		case "request", "request-late":
			if ops.Request == nil {
				sc.reps <- reply{data: sc.Req, st: status.OK, note: "entry"}
				continue
			}
			b, st := ops.Request()
			sc.reps <- reply{data: append([]byte(nil), b...), st: st}
		case "recv", "recvend":
			b, st := ops.Recv()
			sc.reps <- reply{data: append([]byte(nil), b...), st: st}
		case "send":
			sc.reps <- reply{st: ops.Send(c.payload)}
		case "sendend":
			sc.reps <- reply{st: ops.SendEnd()}
		case "next":
			entered2 := false
			st := ops.Next(func(req2 []byte) ([]byte, status.Status) {
				entered2 = true
				sc.reps <- reply{data: append([]byte(nil), req2...), st: status.OK} // answers "next": the inner method was entered
				for {
					c2 := <-sc.cmds
					if c2.op != "return2" {
						sc.reps <- reply{st: status.Errorf("harness: %q inside the subservice method", c2.op)}
						continue
					}
					sc.reps <- reply{st: status.OK}
					return outcomeOf(c2)
				}
			})
			sc.NextSt, sc.NextDone = st, true
			if !entered2 {
				// the hand-over came back without the subservice's method having run
				sc.reps <- reply{st: status.Errorf("not-entered: the subservice returned %v without entering its method", st)}
			}
		case "return":
			sc.reps <- reply{st: status.OK}
			return outcomeOf(c)
		default:
			sc.reps <- reply{st: status.Errorf("harness: unknown command %q", c.op)}
		}
	}
}

func outcomeOf(c command) ([]byte, status.Status) {
	switch c.outcome {
	case "ok":
		return c.payload, status.OK
	case "app":
		code := c.code
		if code == "" {
			code = AppCode
		}
		return nil, status.New(status.Code(code), AppMessage)
	case "panic":
		panic("handler panic ordered by the script")
	}
	return nil, status.Errorf("harness: outcome %q", c.outcome)
}

func (sc *ServerCall) do(c command) (reply, bool) {
	select {
	case sc.cmds <- c:
	case <-time.After(OpTimeout):
		return reply{}, false
	}
	select {
	case r := <-sc.reps:
		return r, true
	case <-time.After(OpTimeout):
		return reply{}, false
	}
}

// Run executes one script.  method is the name the handler must be entered under.
func (rt *RT) Run(s *Script, method string, p Payloads, cl ClientSide, found func(sig, detail string)) {
	rt.mu.Lock()
	rt.active = true
	rt.mu.Unlock()
	lost, lostEarly := false, false // the connection was lost; ... before the handler was entered
	defer func() {
		if lostEarly {
			time.Sleep(OpTimeout / 100) // a request already on its way may still enter the handler
		}
		rt.mu.Lock()
		rt.active = false
		rt.mu.Unlock()
		for {
			select {
			case sc := <-rt.entered:
				if lostEarly {
					// the connection was lost while the request was on its way: the handler may or may not have been entered
					lostEarly = false
				} else {
					found("extra-handler-run", fmt.Sprintf("handler %q was entered once more than the script says", sc.Method))
				}
				go sc.do(command{op: "return", outcome: "app"})
			default:
				return
			}
		}
	}()
	blocking := s.Kind == "unary" || s.Kind == "sub" || s.Kind == "oneway"
	type cres struct {
		b  []byte
		st status.Status
		pn string
	}
	callc := make(chan cres, 1)
	var sc *ServerCall
	freed, unwound := false, false
	returned := false // the handler was told to return
	defer func() {
		if !blocking && !freed {
			safely(func() { cl.Free() })
		}
		if sc != nil && !returned {
			go sc.do(command{op: "return", outcome: "app"}) // a script cut short: let the handler go
		}
	}()
	appCode := appCodeOf(s)
	bad := func(k int, sig, f string, a ...any) {
		found(sig, fmt.Sprintf("step %d (%s.%s): ", k, s.Script[k].Who, s.Script[k].Op)+fmt.Sprintf(f, a...))
	}
	checkOutcome := func(k int, expect string, b []byte, st status.Status) {
		switch expect {
		case "ok":
			if !st.OK() {
				bad(k, "status:"+string(st.Code), "the handler returned OK, the caller got %v", st)
			} else if p.Resp != nil && !bytes.Equal(b, p.Resp) {
				bad(k, "response-bytes", "the caller got %v, the handler returned %v", b, p.Resp)
			} else if p.Resp == nil && len(b) != 0 && s.Kind != "oneway" {
				bad(k, "response-bytes", "the caller got %d bytes from a method without a result", len(b))
			}
		case "app":
			if string(st.Code) != appCode || st.Message != AppMessage {
				bad(k, "status:"+string(st.Code), "the handler returned (%s, %q), the caller got (%s, %q)", appCode, AppMessage, st.Code, st.Message)
			}
		case "panic":
			if st.OK() {
				bad(k, "panic-as-ok", "the handler panicked, the caller got OK")
			}
		case "fail":
			// the connection was lost before the handler had returned anything
			if st.OK() {
				bad(k, "ok-after-loss", "the connection was lost before the handler returned, the caller got OK (%d bytes)", len(b))
			}
		case "maybe-ok":
			// the handler had returned OK before the connection was lost: its result, or a failure
			if st.OK() && p.Resp != nil && !bytes.Equal(b, p.Resp) {
				bad(k, "response-bytes", "after the loss of the connection the caller got OK with %v, the handler returned %v", b, p.Resp)
			}
		case "maybe-app":
			if st.OK() {
				bad(k, "ok-after-loss", "the handler returned (%s, %q) and the connection was lost, the caller got OK", appCode, AppMessage)
			}
		}
	}
	for k, step := range s.Script {
		if step.Who == "x" {
			// the connection is lost
			if rt.Drop == nil {
				bad(k, "harness", "script with a lost connection, but nothing to cut")
				return
			}
			lost, lostEarly = true, sc == nil
			rt.Drop()
			continue
		}
		if step.Who == "c" {
			switch step.Op {
			case "call":
				if blocking {
					go func() {
						var r cres
						defer func() {
							if e := recover(); e != nil {
								r.pn = fmt.Sprint(e)
							}
							callc <- r
						}()
						r.b, r.st = cl.Call()
					}()
					continue
				}
				var st status.Status
				if pn := safely(func() { _, st = cl.Call() }); pn != "" {
					bad(k, "panic:client", "%s", pn)
					return
				}
				if !st.OK() {
					bad(k, "call-failed", "opening the call failed: %v", st)
					return
				}
			case "ret":
				select {
				case r := <-callc:
					if r.pn != "" {
						bad(k, "panic:client", "%s", r.pn)
						return
					}
					checkOutcome(k, step.Expect, r.b, r.st)
				case <-time.After(OpTimeout):
					bad(k, "hang:call", "the call did not return within %v after the handler returned", OpTimeout)
					return
				}
			case "send":
				var st status.Status
				if pn := safely(func() { st = cl.Send(p.In(step.N)) }); pn != "" || !st.OK() {
					bad(k, "client-send", "Send of message %d: %v %s", step.N, st, pn)
					return
				}
			case "sendend":
				var st status.Status
				if pn := safely(func() { st = cl.SendEnd() }); pn != "" || !st.OK() {
					bad(k, "client-sendend", "SendEnd: %v %s", st, pn)
					return
				}
			case "recv", "recvend":
				var b []byte
				var st status.Status
				if pn := safely(func() { b, st = cl.Recv() }); pn != "" {
					bad(k, "panic:client", "%s", pn)
					return
				}
				if st.Code == status.CodeTimeout {
					bad(k, "hang:client-recv", "Receive did not return within %v", OpTimeout)
					return
				}
				if step.Op == "recv" {
					if !st.OK() || !bytes.Equal(b, p.Out(step.N)) {
						bad(k, "client-recv", "expected message %d of the handler's stream, got %d bytes, status %v", step.N, len(b), st)
						return
					}
				} else if st.Code != status.CodeEnd {
					bad(k, "client-recvend", "expected the end of the handler's stream, got %d bytes, status %v", len(b), st)
					return
				}
			case "response-start":
				// a goroutine of the caller waits in Response
				go func() {
					var r cres
					defer func() {
						if e := recover(); e != nil {
							r.pn = fmt.Sprint(e)
						}
						callc <- r
					}()
					r.b, r.st = cl.Response()
				}()
				time.Sleep(2 * time.Millisecond) // let it get inside (either order with the Free that follows is legal)
			case "free":
				// ... and another goroutine frees the call
				if pn := safely(func() { cl.Free() }); pn != "" {
					bad(k, "panic:client", "Free while another goroutine waits in Response: %s", pn)
					return
				}
				freed = true
			case "response-join":
				select {
				case r := <-callc:
					if r.pn != "" {
						bad(k, "panic:client", "Response (joined): %s", r.pn)
						return
					}
					if step.Expect != "any" {
						checkOutcome(k, step.Expect, r.b, r.st)
					}
				case <-time.After(OpTimeout):
					bad(k, "hang:response", "the Response that was waiting did not return within %v after the handler returned", OpTimeout)
					return
				}
			case "response":
				var b []byte
				var st status.Status
				if pn := safely(func() { b, st = cl.Response() }); pn != "" {
					bad(k, "panic:client", "%s", pn)
					return
				}
				if st.Code == status.CodeTimeout {
					bad(k, "hang:response", "Response did not return within %v after the handler returned", OpTimeout)
					return
				}
				checkOutcome(k, step.Expect, b, st)
			}
			continue
		}
		// handler steps
		if step.Op == "start" {
			select {
			case sc = <-rt.entered:
			case <-time.After(OpTimeout):
				bad(k, "handler-not-entered", "the handler was not entered within %v after the call was issued", OpTimeout)
				return
			}
			if sc.Method != method {
				bad(k, "wrong-method", "the call of %q entered the handler of %q", method, sc.Method)
			}
			if s.Kind != "in" && s.Kind != "out" && s.Kind != "inout" && !bytes.Equal(sc.Req, p.Req) {
				bad(k, "request-bytes", "the handler got request %v, the caller sent %v", sc.Req, p.Req)
			}
			continue
		}
		if sc == nil {
			bad(k, "harness", "handler step before the handler was entered")
			return
		}
		if step.Op == "return" && unwound {
			continue // the panic of the subservice's method has unwound the outer method as well
		}
		if step.Op == "return2" && step.Expect == "panic" {
			unwound, returned = true, true
		}
		if step.Op == "return" {
			returned = true
		}
		c := command{op: step.Op}
		switch step.Op {
		case "send":
			c.payload = p.Out(step.N)
		case "return", "return2":
			c.outcome, c.payload, c.code = step.Expect, p.Resp, appCode
		}
		r, ok := sc.do(c)
		if !ok {
			bad(k, "hang:handler-"+step.Op, "the handler's operation did not return within %v", OpTimeout)
			return
		}
		switch step.Op {
		case "request":
			if !r.st.OK() || !bytes.Equal(r.data, p.Req) {
				bad(k, "request-bytes", "Request() gave %v (%v), the caller sent %v", r.data, r.st, p.Req)
			}
		case "next":
			if !r.st.OK() || !bytes.Equal(r.data, p.Req2) {
				bad(k, "request2-bytes", "the subservice method got %v (%v), the caller sent %v", r.data, r.st, p.Req2)
				return
			}
		case "recv":
			if !r.st.OK() || !bytes.Equal(r.data, p.In(step.N)) {
				bad(k, "handler-recv", "expected message %d of the caller's stream, got %d bytes, status %v", step.N, len(r.data), r.st)
				return
			}
		case "recvend":
			if r.st.Code != status.CodeEnd {
				bad(k, "handler-recvend", "expected the end of the caller's stream, got %d bytes, status %v", len(r.data), r.st)
				return
			}
		case "send", "sendend":
			if !r.st.OK() {
				bad(k, "handler-"+step.Op, "%v", r.st)
				return
			}
		case "request-late":
			// an error or a stale view, not judged
		default:
			if !r.st.OK() {
				bad(k, "harness", "%v", r.st)
				return
			}
		}
	}
	_ = lost
	if !blocking && !freed {
		if pn := safely(func() { cl.Free() }); pn != "" {
			found("panic:client", "Free: "+pn)
		}
		freed = true
	}
}

func safely(f func()) (pn string) {
	defer func() {
		if e := recover(); e != nil {
			pn = fmt.Sprint(e)
		}
	}()
	f()
	return ""
}

// Sample picks at most limit scripts, the same share from every (kind, outcome) class, deterministically for a seed.
func Sample(all []*Script, limit int, seed int64) []*Script {
	if limit <= 0 || len(all) <= limit {
		return all
	}
	classes := map[string][]*Script{}
	var keys []string
	for _, s := range all {
		k := s.Kind + "/" + s.Outcome
		if _, ok := classes[k]; !ok {
			keys = append(keys, k)
		}
		classes[k] = append(classes[k], s)
	}
	sort.Strings(keys)
	rng := rand.New(rand.NewSource(seed))
	var out []*Script
	left, kleft := limit, len(keys)
	// small classes first, so that what they do not use goes to the large ones
	sort.SliceStable(keys, func(i, j int) bool { return len(classes[keys[i]]) < len(classes[keys[j]]) })
	for _, k := range keys {
		c := classes[k]
		share := left / kleft
		if len(c) > share {
			rng.Shuffle(len(c), func(i, j int) { c[i], c[j] = c[j], c[i] })
			c = c[:share]
		}
		out = append(out, c...)
		left -= len(c)
		kleft--
	}
	return out
}
