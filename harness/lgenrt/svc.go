package lgenrt

import (
	"encoding/json"
	"fmt"
	"strings"
	"time"

	"github.com/basecomplextech/spec/mpx"
	"github.com/basecomplextech/spec/rpc"

	"verifharness/internal/mpxh"
	"verifharness/internal/tlcio"
	"verifharness/internal/wire"
	"verifharness/svcrt"
)

// Services: the svc.go file next to a case's registry implements the generated service interfaces on top of the script
// engine (svcrt) and registers a function that executes scripts of SvcCall.tla through the generated client and handler.

// SvcT is what such a function gets.
type SvcT struct {
	Case    *Case
	Scripts []*svcrt.Script
	r       *runner
}

var svcRegistry = map[string]func(t *SvcT){}

// RegisterSvc is called by the svc.go file of a case.
func RegisterSvc(id string, run func(t *SvcT)) { svcRegistry[id] = run }

// Found reports a finding of the service run.
func (t *SvcT) Found(sig, detail string) {
	svcFindings++
	t.r.found("svc:"+sig, "%s", detail)
}

var svcFindings int

// Stop tells the service run to stop: enough findings over all cases.
func (t *SvcT) Stop() bool { return svcFindings >= 8 }

// Checked counts executed scripts.
func (t *SvcT) Checked(n int) { t.r.checks += n }

// Bytes returns the specification's bytes of the k-th value assignment of a message of the compiled package.
func (t *SvcT) Bytes(msg string, k int) []byte {
	for i := range t.Case.Sem.Msgs {
		m := &t.Case.Sem.Msgs[i]
		if m.Msg == msg && len(m.Runs) > 0 {
			return wire.ToBytes(m.Runs[k%len(m.Runs)].Bytes)
		}
	}
	panic("harness: no semantics for message " + msg)
}

// Serve starts a real rpc server with the handler and a real client connected to it.
func (t *SvcT) Serve(h rpc.Handler) (rpc.Client, func()) {
	opts := rpc.Default()
	opts.Compression = false
	lg, clg := mpxh.NewCapLogger(), mpxh.NewCapLogger()
	srv := rpc.NewServer("127.0.0.1:0", h, lg, opts)
	if st := srv.Start(); !st.OK() {
		panic("harness: " + st.String())
	}
	select {
	case <-srv.Listening().Wait():
	case <-time.After(5 * time.Second):
		panic("harness: rpc server not listening")
	}
	cl := rpc.NewClient(srv.Address(), mpx.ClientMode_OnDemand, clg, opts)
	return cl, func() {
		cl.Close()
		select {
		case <-srv.Stop():
		case <-time.After(5 * time.Second):
		}
		for _, p := range mpxh.Panics(clg.Take()) {
			t.Found("panic:library", p)
		}
		for _, p := range lg.Take() {
			if strings.Contains(p, "Connection panic") || strings.Contains(p, "Channel panic") {
				t.Found("panic:library", p)
			}
		}
	}
}

func loadScripts(path string, limit int, seed int64) ([]*svcrt.Script, error) {
	var all []*svcrt.Script
	seen := map[string]bool{}
	err := tlcio.Lines(path, func(i int, raw []byte) error {
		s := &svcrt.Script{}
		if err := json.Unmarshal(raw, s); err != nil {
			return err
		}
		if k := s.String(); !seen[k] {
			seen[k] = true
			all = append(all, s)
		}
		return nil
	})
	if err != nil {
		return nil, err
	}
	if len(all) == 0 {
		return nil, fmt.Errorf("no scripts in %s", path)
	}
	return svcrt.Sample(all, limit, seed), nil
}

func (r *runner) runSvc(scripts []*svcrt.Script) bool {
	run, ok := svcRegistry[r.c.ID]
	if !ok {
		return false
	}
	run(&SvcT{Case: r.c, Scripts: scripts, r: r})
	return true
}
