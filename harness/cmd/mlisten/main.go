// mlisten replays every schedule of MpxListen.tla on a real connection (C20: close listeners).
//
// Gates (verif build) park the registering goroutine, the unsubscriber and the connection closer at the
// atomic operations on {closed flag, listener map, once-flag}; the controller releases them in the model's
// order.  Compared with the model: the registration result, how often the listener ran, and that the
// closed flag was observable from inside the listener.
package main

import (
	"encoding/json"
	"flag"
	"fmt"
	"net"
	"os"
	"runtime"
	"strconv"
	"strings"
	"sync"
	"sync/atomic"
	"time"

	"github.com/basecomplextech/baselibrary/async"
	"github.com/basecomplextech/baselibrary/bin"
	"github.com/basecomplextech/spec/mpx"
	"github.com/basecomplextech/spec/proto/pmpx"

	"verifharness/internal/mpxh"
	"verifharness/internal/peer"
	"verifharness/internal/tlcio"
	"verifharness/internal/tscale"
)

type Rec struct {
	Sched  [][]string `json:"sched"`
	Result string     `json:"result"`
	Calls  int        `json:"calls"`
	Unsub  bool       `json:"unsub"`
}

type Outcome struct {
	Case   int    `json:"case"`
	Sig    string `json:"sig"`
	Detail string `json:"detail"`
	Sched  string `json:"sched"`
}

var stepTimeout = tscale.D(3 * time.Second)

var gated = map[string]bool{"lc.check1": true, "lc.set": true, "lc.check2": true, "lc.del": true, "lc.cas": true,
	"lc.unsub": true, "cl.begin": true, "cl.setflag": true, "cl.notify": true, "cl.call": true, "cl.clear": true}

func goid() int64 {
	var buf [64]byte
	n := runtime.Stack(buf[:], false)
	f := strings.Fields(string(buf[:n]))
	id, _ := strconv.ParseInt(f[1], 10, 64)
	return id
}

type arrival struct {
	actor, gate string
	rel         chan struct{}
}

type ctl struct {
	mu     sync.Mutex
	active bool
	actors map[int64]string
	arrive chan arrival
}

func (c *ctl) trace(ev string, id bin.Bin128, a, b int64) {
	c.mu.Lock()
	if !c.active || !gated[ev] {
		c.mu.Unlock()
		return
	}
	g := goid()
	actor := c.actors[g]
	if actor == "" && ev == "cl.begin" {
		actor = "CL"
		c.actors[g] = actor
	}
	c.mu.Unlock()
	if actor == "" {
		return
	}
	rel := make(chan struct{})
	c.arrive <- arrival{actor, ev, rel}
	<-rel
}

func (c *ctl) register(actor string) {
	c.mu.Lock()
	c.actors[goid()] = actor
	c.mu.Unlock()
}

func (c *ctl) done(actor string) {
	c.mu.Lock()
	active := c.active
	c.mu.Unlock()
	if active {
		rel := make(chan struct{})
		c.arrive <- arrival{actor, "done", rel}
		<-rel
	}
}

func (c *ctl) stop() {
	c.mu.Lock()
	c.active = false
	c.mu.Unlock()
	for {
		select {
		case a := <-c.arrive:
			close(a.rel)
		case <-time.After(20 * time.Millisecond):
			return
		}
	}
}

func schedString(r *Rec) string {
	var b strings.Builder
	for i, s := range r.Sched {
		if i > 0 {
			b.WriteString(" ")
		}
		b.WriteString(s[0] + ":" + s[1])
	}
	return b.String()
}

func serve(ln net.Listener) (*peer.Peer, error) {
	c, err := ln.Accept()
	if err != nil {
		return nil, err
	}
	p := peer.Wrap(c)
	if _, err := p.ReadLine(tscale.D(3 * time.Second)); err != nil {
		return nil, err
	}
	if _, err := p.ReadFrame(tscale.D(3 * time.Second)); err != nil {
		return nil, err
	}
	p.WriteRaw([]byte(peer.ProtocolLine))
	resp, err := pmpx.BuildConnectResponse(pmpx.Version_Version10, pmpx.ConnectCompression_None)
	if err != nil {
		return nil, err
	}
	return p, p.WriteFrame(resp.Unwrap().Raw())
}

func runSchedule(rec *Rec, c *ctl, nocas bool, report func(sig, detail string)) {
	ln, err := net.Listen("tcp", "127.0.0.1:0")
	if err != nil {
		report("harness", err.Error())
		return
	}
	defer ln.Close()
	type acc struct {
		p   *peer.Peer
		err error
	}
	accC := make(chan acc, 1)
	go func() { p, err := serve(ln); accC <- acc{p, err} }()
	lg := mpxh.NewCapLogger()
	opts := mpx.Default()
	opts.Compression = false
	conn, st := mpx.Connect(async.NoContext(), ln.Addr().String(), lg, opts)
	if !st.OK() {
		report("harness", "connect: "+st.String())
		return
	}
	a := <-accC
	if a.err != nil {
		report("harness", "accept: "+a.err.Error())
		return
	}
	defer a.p.Close()
	defer conn.Close()
	// wait until the handshake is done (Channel succeeds)
	ch, st := conn.Channel(async.TimeoutContext(tscale.D(3 * time.Second)))
	if !st.OK() {
		report("harness", "channel: "+st.String())
		return
	}
	ch.Free()

	c.mu.Lock()
	c.active = true
	c.actors = map[int64]string{}
	c.mu.Unlock()
	stopped := false
	defer func() {
		if !stopped {
			c.stop()
		}
	}()
	parked := map[string]arrival{}
	finished := map[string]bool{}
	pump := func(actor string) (string, bool) {
		deadline := time.After(stepTimeout)
		for {
			if p, ok := parked[actor]; ok {
				return p.gate, true
			}
			if finished[actor] {
				return "done", true
			}
			select {
			case x := <-c.arrive:
				if x.gate == "done" {
					close(x.rel)
					finished[x.actor] = true
					continue
				}
				parked[x.actor] = x
			case <-deadline:
				return "", false
			}
		}
	}

	var calls atomic.Int32
	var sawUnset atomic.Bool
	fn := func() {
		calls.Add(1)
		if !conn.Closed().IsSet() {
			sawUnset.Store(true)
		}
	}
	var unsub func()
	var ok bool
	go func() {
		c.register("R")
		unsub, ok = conn.OnClosed(fn)
		c.done("R")
	}()
	if _, okk := pump("R"); !okk {
		report("harness-stuck", "registrant did not reach its first gate")
		return
	}
	for k, s := range rec.Sched {
		actor, gate := s[0], s[1]
		if nocas && gate == "lc.cas" {
			continue
		}
		if actor == "CL" && gate == "cl.begin" {
			conn.Close() // local close: the receive loop fails, run() calls close()
		}
		if actor == "UN" {
			go func() {
				c.register("UN")
				if unsub != nil {
					unsub()
				}
				c.done("UN")
			}()
		}
		got, okk := pump(actor)
		if !okk {
			report("stuck:"+actor+":"+gate, fmt.Sprintf("step %d: %s never arrived at gate %s", k, actor, gate))
			return
		}
		if got != gate {
			report("gate:"+actor+":"+got+"!="+gate, fmt.Sprintf("step %d: %s is at gate %q, the model says %q", k, actor, got, gate))
			return
		}
		p := parked[actor]
		delete(parked, actor)
		close(p.rel)
		if actor == "CL" && gate == "cl.clear" {
			continue // the closer has no further gate of this model and no completion event
		}
		if _, okk := pump(actor); !okk {
			report("stuck-after:"+actor+":"+gate, fmt.Sprintf("step %d: %s passed gate %s and neither reached another gate nor finished", k, actor, gate))
			return
		}
	}
	for a2, p := range parked {
		report("extra-gate:"+a2+":"+p.gate, fmt.Sprintf("%s waits at gate %q after the model's schedule ended", a2, p.gate))
	}
	stopped = true
	c.stop()
	time.Sleep(2 * time.Millisecond)
	res := "closed"
	if ok {
		res = "ok"
	}
	want := rec.Result
	if want == "ran" {
		want = "ok" // reported as registered because the listener had already been invoked
	}
	if res != want {
		report("result:"+res+"-want-"+rec.Result+fmt.Sprintf(":calls=%d", calls.Load()),
			fmt.Sprintf("OnClosed reported %q, the model says %q; the listener ran %d times", res, rec.Result, calls.Load()))
	}
	if int(calls.Load()) != rec.Calls {
		report(fmt.Sprintf("calls:%d-want-%d:result=%s", calls.Load(), rec.Calls, res),
			fmt.Sprintf("the listener ran %d times, the model says %d (registration reported %q)", calls.Load(), rec.Calls, res))
	}
	if sawUnset.Load() {
		report("flag-not-visible", "the listener ran while Closed() was still unset")
	}
	for _, e := range mpxh.Panics(lg.Take()) {
		report("panic:library", e)
	}
}

func main() {
	in := flag.String("in", "", "TLC output with schedules")
	nocas := flag.Bool("nocas", false, "skip lc.cas steps (code without that gate)")
	flag.Parse()
	c := &ctl{arrive: make(chan arrival, 64), actors: map[int64]string{}}
	mpx.SetVerifTracer(c.trace)
	enc := json.NewEncoder(os.Stdout)
	n, nMis := 0, 0
	bySig := map[string]int{}
	err := tlcio.Lines(*in, func(i int, raw []byte) error {
		var rec Rec
		if err := json.Unmarshal(raw, &rec); err != nil {
			return err
		}
		n++
		report := func(sig, detail string) {
			nMis++
			bySig[sig]++
			if bySig[sig] <= 3 {
				enc.Encode(Outcome{Case: i, Sig: sig, Detail: detail, Sched: schedString(&rec)})
			}
		}
		runSchedule(&rec, c, *nocas, report)
		return nil
	})
	if err != nil {
		fmt.Fprintln(os.Stderr, "harness error:", err)
		os.Exit(2)
	}
	enc.Encode(map[string]any{"summary": map[string]any{"schedules": n, "mismatches": nMis, "by_sig": bySig}})
}
