// mrpc records call histories of a real rpc client and server for validation against RpcTrace.tla (C04).
//
// The harness is both caller and handler.  Every request carries a call id and a script; results and stream messages
// carry the call id, so "its own result" is observable.  Events: cb/ce at the client (before the call / after it
// returned), hs/hr in the handler (entry / right before returning, i.e. before the library sends the response),
// snd/snde before a stream send, rcv/rcve after a stream receive returned.  One recorder orders all events.
package main

import (
	"encoding/json"
	"flag"
	"fmt"
	"math/rand"
	"os"
	"sync"
	"sync/atomic"
	"time"

	"github.com/basecomplextech/baselibrary/async"
	"github.com/basecomplextech/baselibrary/ref"
	"github.com/basecomplextech/baselibrary/status"
	bunits "github.com/basecomplextech/baselibrary/units"
	spec "github.com/basecomplextech/spec"
	"github.com/basecomplextech/spec/mpx"
	"github.com/basecomplextech/spec/rpc"

	"verifharness/internal/mpxh"
	"verifharness/internal/poolrec"
	"verifharness/internal/tscale"
)

type Event struct {
	E     string `json:"e"`
	I     int    `json:"i,omitempty"`
	Kind  string `json:"kind,omitempty"`
	Code  string `json:"code"`
	Msg   string `json:"msg"`
	Res   int    `json:"res"`
	Panic bool   `json:"panic"`
	D     string `json:"d,omitempty"`
	N     int    `json:"n"`
}

type recorder struct {
	mu     sync.Mutex
	enc    *json.Encoder
	n      int
	closed bool
}

func (r *recorder) log(e Event) {
	r.mu.Lock()
	if !r.closed {
		r.enc.Encode(e)
		r.n++
	}
	r.mu.Unlock()
}

type Finding struct {
	Run    int    `json:"run"`
	Sig    string `json:"sig"`
	Detail string `json:"detail"`
}

// scripts
const (
	sEcho      = iota // unary: result = f(id)
	sAppCode          // unary: application-defined status code and message
	sPanic            // unary: handler panics
	sStdErr           // unary: standard non-OK code
	sEarly            // client streams, handler responds without reading
	sSrvStream        // server streams n messages, then OK
	sBidi             // handler echoes the client's messages until end, then OK
	sOneway           // oneway: handler returns SkipResponse
	sSlow             // unary with a client deadline shorter than the handler: the client's wait fails (dirties the pooled call state)
	sStreamErr        // server streams n messages, then an application-defined error (the caller drains the stream, then asks for the response)
	sStreamPanic      // server streams n messages, then panics
	nScripts
)

func resultOf(run, id int) int64 { return int64(run)*1_000_000 + int64(id)*7 + 3 }

func encodeInt(v int64) []byte {
	w := spec.NewValueWriter()
	w.Int64(v)
	b, err := w.Build()
	if err != nil {
		panic("harness: " + err.Error())
	}
	return append([]byte{}, b...)
}

// stream message: [run, id, n] as a spec message value
func streamMsg(run, id, n int) []byte {
	w := spec.NewMessageWriter()
	w.Field(1).Int64(int64(run))
	w.Field(2).Int64(int64(id))
	w.Field(3).Int64(int64(n))
	b, err := w.Build()
	if err != nil {
		panic("harness: " + err.Error())
	}
	return append([]byte{}, b...)
}

func parseStream(b []byte) (run, id, n int, ok bool) {
	m, sz, err := spec.ParseMessage(b)
	if err != nil || sz != len(b) {
		return 0, 0, 0, false
	}
	return int(m.Int64(1)), int(m.Int64(2)), int(m.Int64(3)), true
}

type env struct {
	run   int
	rec   *recorder
	found func(sig, detail string)
	hruns atomic.Int32
	hdone atomic.Int32 // handler runs that logged their return
}

// standard codes a handler may return; the caller must get the same one (rpc/status.go maps them back to constants)
var stdCodes = []status.Code{status.CodeTest, status.CodeError, status.CodeExternalError, status.CodeNotFound, status.CodeForbidden,
	status.CodeUnauthorized, status.CodeRollback, status.CodeRedirect, status.CodeUnavailable, status.CodeUnsupported,
	status.CodeParseError, status.CodeChecksumError, status.CodeConcurrencyError, status.CodeWait, status.CodeCancelled, status.CodeClosed}

func (e *env) handle(ctx rpc.Context, ch rpc.ServerChannel) (ref.R[[]byte], status.Status) {
	req, st := ch.Request(ctx)
	if !st.OK() {
		return nil, st
	}
	in := req.Calls().Get(0).Input()
	run, id, script, n := int(in.Int64(1)), int(in.Int64(2)), int(in.Int32(3)), int(in.Int32(4))
	if run != e.run {
		e.found("foreign-request", fmt.Sprintf("handler of run %d received a request of run %d", e.run, run))
		return nil, status.OK
	}
	e.hruns.Add(1)
	e.rec.log(Event{E: "hs", I: id})
	ret := func(st status.Status, res int64, hasRes bool) (ref.R[[]byte], status.Status) {
		e.rec.log(Event{E: "hr", I: id, Code: string(st.Code), Msg: st.Message, Res: int(res)})
		e.hdone.Add(1)
		if hasRes {
			return ref.NewNoop(encodeInt(res)), st
		}
		return nil, st
	}
	switch script {
	case sEcho:
		return ret(status.OK, resultOf(run, id), true)
	case sSlow:
		time.Sleep(60 * time.Millisecond)
		return ret(status.OK, resultOf(run, id), true)
	case sAppCode:
		return ret(status.New(status.Code(fmt.Sprintf("app_code_%d", id%3)), fmt.Sprintf("message of call %d", id)), 0, false)
	case sStdErr:
		return ret(status.New(stdCodes[(run+id)%len(stdCodes)], fmt.Sprintf("call %d failed", id)), 0, false)
	case sPanic:
		e.rec.log(Event{E: "hr", I: id, Panic: true})
		e.hdone.Add(1)
		panic(fmt.Sprintf("handler panic of call %d", id))
	case sEarly:
		return ret(status.OK, resultOf(run, id), true)
	case sStreamErr, sStreamPanic:
		for k := 1; k <= n; k++ {
			e.rec.log(Event{E: "snd", I: id, D: "s2c", N: k})
			if st := ch.Send(ctx, streamMsg(run, id, k)); !st.OK() {
				return ret(st, 0, false)
			}
		}
		if script == sStreamPanic {
			e.rec.log(Event{E: "hr", I: id, Panic: true})
			e.hdone.Add(1)
			panic(fmt.Sprintf("handler panic of call %d after streaming", id))
		}
		return ret(status.New(status.Code(fmt.Sprintf("app_code_%d", id%3)), fmt.Sprintf("stream of call %d failed", id)), 0, false)
	case sSrvStream:
		for k := 1; k <= n; k++ {
			e.rec.log(Event{E: "snd", I: id, D: "s2c", N: k})
			if st := ch.Send(ctx, streamMsg(run, id, k)); !st.OK() {
				return ret(st, 0, false)
			}
		}
		return ret(status.OK, resultOf(run, id), true)
	case sBidi:
		k := 0
		for {
			b, st := ch.Receive(ctx)
			if st.Code == status.CodeEnd {
				e.rec.log(Event{E: "rcve", I: id, D: "c2s"})
				break
			}
			if !st.OK() {
				return ret(st, 0, false)
			}
			r2, i2, n2, ok := parseStream(b)
			if !ok || r2 != run || i2 != id {
				e.found("foreign-stream-message", fmt.Sprintf("handler of call %d received a stream message of call %d (run %d)", id, i2, r2))
				n2 = -1
			}
			e.rec.log(Event{E: "rcv", I: id, D: "c2s", N: n2})
			k++
			e.rec.log(Event{E: "snd", I: id, D: "s2c", N: k})
			if st := ch.Send(ctx, streamMsg(run, id, k)); !st.OK() {
				return ret(st, 0, false)
			}
		}
		return ret(status.OK, resultOf(run, id), true)
	case sOneway:
		return ret(rpc.SkipResponse, 0, false)
	}
	return ret(status.Errorf("unknown script %d", script), 0, false)
}

func buildRequest(run, id, script, n int) (*rpc.Request, error) {
	r := rpc.NewRequest()
	w := spec.NewMessageWriter()
	w.Field(1).Int64(int64(run))
	w.Field(2).Int64(int64(id))
	w.Field(3).Int32(int32(script))
	w.Field(4).Int32(int32(n))
	b, err := w.Build()
	if err != nil {
		return nil, err
	}
	in, _, err := spec.ParseMessage(append([]byte{}, b...))
	if err != nil {
		return nil, err
	}
	if st := r.AddMessage(fmt.Sprintf("method%d", script), in); !st.OK() {
		return nil, fmt.Errorf("%v", st)
	}
	return r, nil
}

var opTimeout = tscale.D(10 * time.Second)

func (e *env) call(cl rpc.Client, id, script, n int) {
	defer func() {
		if p := recover(); p != nil {
			e.found("panic:user", fmt.Sprintf("call %d (script %d) panicked in the client: %v", id, script, p))
		}
	}()
	r, err := buildRequest(e.run, id, script, n)
	if err != nil {
		e.found("harness", err.Error())
		return
	}
	defer r.Free()
	req, st := r.Build()
	if !st.OK() {
		e.found("harness", st.String())
		return
	}
	ctx := async.TimeoutContext(opTimeout)
	end := func(st status.Status, res int64) {
		if st.Code == status.CodeTimeout {
			e.found("hang:call", fmt.Sprintf("call %d (script %d) did not finish within %v", id, script, opTimeout))
		}
		e.rec.log(Event{E: "ce", I: id, Code: string(st.Code), Msg: st.Message, Res: int(res)})
	}
	switch script {
	case sOneway:
		e.rec.log(Event{E: "cb", I: id, Kind: "oneway"})
		st := cl.RequestOneway(ctx, req)
		end(st, 0)
	case sSlow:
		// the caller's own deadline expires while it waits for the response
		e.rec.log(Event{E: "cb", I: id, Kind: "deadline"})
		res, st := cl.Request(async.TimeoutContext(15*time.Millisecond), req) // not scaled: it is meant to expire
		var v int64
		if st.OK() && res != nil {
			v = res.Unwrap().Int64()
		}
		e.rec.log(Event{E: "ce", I: id, Code: string(st.Code), Msg: st.Message, Res: int(v)})
		if res != nil {
			res.Release()
		}
	case sEcho, sAppCode, sPanic, sStdErr:
		e.rec.log(Event{E: "cb", I: id, Kind: "unary"})
		res, st := cl.Request(ctx, req)
		var v int64
		if st.OK() && res != nil {
			v = res.Unwrap().Int64()
		}
		end(st, v)
		if res != nil {
			res.Release()
		}
	default:
		e.rec.log(Event{E: "cb", I: id, Kind: "stream"})
		ch, st := cl.Channel(ctx, req)
		if !st.OK() {
			end(st, 0)
			return
		}
		defer ch.Free()
		switch script {
		case sEarly:
			// keep streaming while the handler has already answered
			for k := 1; k <= n; k++ {
				e.rec.log(Event{E: "snd", I: id, D: "c2s", N: k})
				if st := ch.Send(ctx, streamMsg(e.run, id, k)); !st.OK() {
					break
				}
			}
		case sBidi:
			for k := 1; k <= n; k++ {
				e.rec.log(Event{E: "snd", I: id, D: "c2s", N: k})
				if st := ch.Send(ctx, streamMsg(e.run, id, k)); !st.OK() {
					break
				}
				if k%2 == 0 {
					e.recvOne(ch, ctx, id)
				}
			}
			e.rec.log(Event{E: "snde", I: id, D: "c2s"})
			ch.SendEnd(ctx)
		}
		if script != sEarly {
			// read the server's stream to its end
			for e.recvOne(ch, ctx, id) {
			}
		}
		v, st := ch.Response(ctx)
		var res int64
		if st.OK() && v != nil {
			res = v.Int64()
		}
		end(st, res)
	}
}

// recvOne logs one received stream message; false at the end of the stream or on error
func (e *env) recvOne(ch rpc.Channel, ctx async.Context, id int) bool {
	b, st := ch.Receive(ctx)
	if st.OK() {
		r2, i2, n2, ok := parseStream(b)
		if !ok || r2 != e.run || i2 != id {
			e.found("foreign-stream-message", fmt.Sprintf("call %d received a stream message of call %d (run %d)", id, i2, r2))
			n2 = -1
		}
		e.rec.log(Event{E: "rcv", I: id, D: "s2c", N: n2})
		return true
	}
	if st.Code == status.CodeEnd {
		e.rec.log(Event{E: "rcve", I: id, D: "s2c"})
	}
	return false
}

func runOnce(run int, rng *rand.Rand, rec *recorder, calls int, found func(sig, detail string)) {
	e := &env{run: run, rec: rec, found: found}
	opts := rpc.Default()
	opts.Compression = rng.Intn(2) == 0
	opts.ClientMaxConns = 1 + rng.Intn(2)
	opts.ClientConnChannels = 2
	opts.ChannelWindowSize = []bunits.Bytes{64, 4096, 1 << 20}[rng.Intn(3)]
	lg := mpxh.NewCapLogger()
	srv := rpc.NewServer("127.0.0.1:0", rpc.HandleFunc(e.handle), lg, opts)
	if st := srv.Start(); !st.OK() {
		found("harness", st.String())
		return
	}
	defer func() {
		select {
		case <-srv.Stop():
		case <-time.After(5 * time.Second):
		}
	}()
	select {
	case <-srv.Listening().Wait():
	case <-time.After(5 * time.Second):
		found("harness", "server not listening")
		return
	}
	clg := mpxh.NewCapLogger()
	cl := rpc.NewClient(srv.Address(), mpx.ClientMode_OnDemand, clg, opts)
	defer cl.Close()
	var wg sync.WaitGroup
	workers := 1 + rng.Intn(4)
	var next atomic.Int32
	scripts := make([]int, calls+1)
	ns := make([]int, calls+1)
	for i := 1; i <= calls; i++ {
		scripts[i] = rng.Intn(nScripts)
		ns[i] = 1 + rng.Intn(5)
	}
	for g := 0; g < workers; g++ {
		wg.Add(1)
		go func() {
			defer wg.Done()
			for {
				i := int(next.Add(1))
				if i > calls {
					return
				}
				e.call(cl, i, scripts[i], ns[i])
			}
		}()
	}
	done := make(chan struct{})
	go func() { wg.Wait(); close(done) }()
	select {
	case <-done:
	case <-time.After(4 * opTimeout):
		found("hang:run", "calls did not finish")
	}
	// oneway calls return before their handler ran: wait until every issued call reached the handler
	deadline := time.Now().Add(tscale.D(3 * time.Second))
	for (int(e.hruns.Load()) < calls || e.hdone.Load() < e.hruns.Load()) && time.Now().Before(deadline) {
		time.Sleep(time.Millisecond)
	}
	time.Sleep(2 * time.Millisecond)
	for _, p := range mpxh.Panics(clg.Take()) {
		found("panic:library", p)
	}
	for _, p := range lg.Take() {
		// handler panics are expected to be logged by the rpc server as errors of that request; connection panics are not
		if containsAny(p, "Connection panic", "Channel panic") {
			found("panic:library", p)
		}
	}
}

func containsAny(s string, subs ...string) bool {
	for _, x := range subs {
		if len(x) > 0 && len(s) >= len(x) {
			for i := 0; i+len(x) <= len(s); i++ {
				if s[i:i+len(x)] == x {
					return true
				}
			}
		}
	}
	return false
}



func main() {
	out := flag.String("out", "rpc.ndjson", "trace output")
	runs := flag.Int("runs", 20, "runs")
	calls := flag.Int("calls", 24, "calls per run")
	seed := flag.Int64("seed", 1, "seed")
	pooltrace := flag.String("pooltrace", "", "C18: record the pool events of the run into this file")
	flag.Parse()
	if *pooltrace != "" {
		poolrec.Start(60000)
		defer func() {
			if _, _, err := poolrec.Dump(*pooltrace); err != nil {
				fmt.Fprintln(os.Stderr, "harness error:", err)
				os.Exit(2)
			}
		}()
	}
	f, err := os.Create(*out)
	if err != nil {
		fmt.Fprintln(os.Stderr, "harness error:", err)
		os.Exit(2)
	}
	defer f.Close()
	fenc := json.NewEncoder(f)
	enc := json.NewEncoder(os.Stdout)
	rng := rand.New(rand.NewSource(*seed))
	nFind, nEv := 0, 0
	bySig := map[string]int{}
	var fmu sync.Mutex
	ran := 0
	for r := 1; r <= *runs; r++ {
		fmu.Lock()
		enough := nFind >= 8
		fmu.Unlock()
		if enough {
			break // a tree that fails keeps failing, and every hang costs a time limit
		}
		ran = r
		rec := &recorder{enc: fenc}
		found := func(sig, detail string) {
			fmu.Lock()
			defer fmu.Unlock()
			nFind++
			bySig[sig]++
			if bySig[sig] <= 3 {
				enc.Encode(Finding{Run: r, Sig: sig, Detail: detail})
			}
		}
		runOnce(r, rng, rec, *calls, found)
		rec.mu.Lock()
		rec.closed = true
		nEv += rec.n
		rec.mu.Unlock()
		fenc.Encode(Event{E: "reset"})
	}
	enc.Encode(map[string]any{"summary": map[string]any{"runs": ran, "calls": ran * *calls, "events": nEv, "findings": nFind, "by_sig": bySig}})
}
