package main

import (
	"io"
	"math/rand"
	"net"
	"sync"
	"time"
)

// slowProxy forwards TCP connections to the server and holds back the server's first bytes of every connection for a
// random time, so that the client's dial (connect + handshake) takes long enough for Close, connection losses and
// other callers to land while a dial is in flight (the window between the end of the dial and the registration of
// the new connection under the client mutex is otherwise a few microseconds wide).
type slowProxy struct {
	ln     net.Listener
	target string
	maxMs  int
	mu     sync.Mutex
	rng    *rand.Rand
	conns  []net.Conn
}

func newSlowProxy(target string, maxMs int, seed int64) (*slowProxy, error) {
	ln, err := net.Listen("tcp", "127.0.0.1:0")
	if err != nil {
		return nil, err
	}
	p := &slowProxy{ln: ln, target: target, maxMs: maxMs, rng: rand.New(rand.NewSource(seed))}
	go p.serve()
	return p, nil
}

func (p *slowProxy) addr() string { return p.ln.Addr().String() }

func (p *slowProxy) serve() {
	for {
		c, err := p.ln.Accept()
		if err != nil {
			return
		}
		go p.handle(c)
	}
}

func (p *slowProxy) handle(c net.Conn) {
	s, err := net.DialTimeout("tcp", p.target, time.Second)
	if err != nil {
		c.Close() // the server is down: the client's dial fails
		return
	}
	p.mu.Lock()
	delay := time.Duration(p.rng.Intn(p.maxMs+1)) * time.Millisecond
	p.conns = append(p.conns, c, s)
	p.mu.Unlock()
	go func() {
		io.Copy(s, c)
		s.Close()
		c.Close()
	}()
	buf := make([]byte, 32*1024)
	first := true
	for {
		n, err := s.Read(buf)
		if n > 0 {
			if first {
				first = false
				time.Sleep(delay)
			}
			if _, werr := c.Write(buf[:n]); werr != nil {
				break
			}
		}
		if err != nil {
			break
		}
	}
	s.Close()
	c.Close()
}

// pause closes the proxy's listener (dials to it are refused) and every forwarded connection; resume listens again on the
// same address.
func (p *slowProxy) pause() {
	p.ln.Close()
	p.mu.Lock()
	for _, c := range p.conns {
		c.Close()
	}
	p.conns = nil
	p.mu.Unlock()
}

func (p *slowProxy) resume() error {
	addr := p.ln.Addr().String()
	var err error
	for try := 0; try < 100; try++ {
		var ln net.Listener
		if ln, err = net.Listen("tcp", addr); err == nil {
			p.ln = ln
			go p.serve()
			return nil
		}
		time.Sleep(5 * time.Millisecond)
	}
	return err
}

func (p *slowProxy) close() {
	p.ln.Close()
	p.mu.Lock()
	for _, c := range p.conns {
		c.Close()
	}
	p.mu.Unlock()
}
