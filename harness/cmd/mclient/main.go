// mclient drives a real mpx client through concurrent Conn/Channel/Close calls, connection losses and server
// restarts, and records the client states the verif build reports at the end of every region locked by the client
// mutex (C19).  The states are validated by TLC against MpxClientTrace.tla, one trace file per (MaxConns, mode).
// It also prints the back-off table of the auto-connect client for comparison with the specification's Backoff.
package main

import (
	"encoding/json"
	"flag"
	"fmt"
	"math/rand"
	"os"
	"path/filepath"
	"reflect"
	"sync"
	"sync/atomic"
	"time"

	"github.com/basecomplextech/baselibrary/async"
	"github.com/basecomplextech/baselibrary/bin"
	"github.com/basecomplextech/baselibrary/status"
	"github.com/basecomplextech/spec/mpx"

	"verifharness/internal/mpxh"
	"verifharness/internal/tscale"
)

type Event struct {
	E            string `json:"e"`
	Closed       bool   `json:"closed"`
	Connected    bool   `json:"connected"`
	Disconnected bool   `json:"disconnected"`
	Connecting   bool   `json:"connecting"`
	Listed       int    `json:"listed"`
	Live         int    `json:"live"`
	Attempt      int    `json:"attempt"`
}

type Finding struct {
	Run    int    `json:"run"`
	Sig    string `json:"sig"`
	Detail string `json:"detail"`
	Config string `json:"config"`
}

var (
	recMu  sync.Mutex
	recOn  bool
	recID  [4]byte // low 32 bits of the address of the client under test (events of older clients are ignored)
	recEvs []Event
)

type earlyEv struct {
	id [4]byte
	ev Event
}

var (
	earlyMu  sync.Mutex
	earlyOn  bool
	earlyEvs []earlyEv
)

// A caller that found no usable connection without the lock is held, in every second run, before it takes the client's
// mutex until a connect routine has added a connection (or 25 ms passed): the re-check under the lock then runs in the
// state the fast path did not see.
var (
	gateOn atomic.Bool
	addSeq atomic.Int64
)

// A closing connection can be held right after it has raised its closed flag, before it is taken off the client's list
// (the gate "cl.range" sits between the two): the state "listed but closed" then lasts as long as the driver wants.
var (
	rangeArmed  atomic.Bool
	rangeAt     = make(chan struct{}, 1)
	rangeGo     = make(chan struct{})
	liveNow     atomic.Int64 // live connections in the last state the client under test reported
	slowSeq     atomic.Int64 // its passes through the locked lookup
	stalePhases atomic.Int64
)

func tracer(ev string, id bin.Bin128, a, b int64) {
	if ev == "cg.slow" {
		if gateOn.Load() {
			start := addSeq.Load()
			deadline := time.Now().Add(25 * time.Millisecond)
			for addSeq.Load() == start && time.Now().Before(deadline) {
				time.Sleep(100 * time.Microsecond)
			}
		}
		return
	}
	if ev == "cl.range" && rangeArmed.CompareAndSwap(true, false) {
		rangeAt <- struct{}{}
		select {
		case <-rangeGo:
		case <-time.After(tscale.D(20 * time.Second)):
		}
		return
	}
	if len(ev) < 3 || ev[:3] != "cl." {
		return
	}
	if ev == "cl.add" {
		addSeq.Add(1)
	}
	switch ev {
	case "cl.begin", "cl.range", "cl.del", "cl.done", "cl.setflag", "cl.notify", "cl.call", "cl.clear":
		return // connection closer gates, not client states
	}
	e := Event{E: ev, Closed: a&1 != 0, Connected: a&2 != 0, Disconnected: a&4 != 0, Connecting: a&8 != 0,
		Listed: int(b & 0xffff), Live: int((b >> 16) & 0xffff), Attempt: int(b >> 32)}
	key := [4]byte{id[0][0], id[0][1], id[0][2], id[0][3]}
	recMu.Lock()
	earlyMu.Lock()
	if earlyOn {
		earlyEvs = append(earlyEvs, earlyEv{key, e})
	}
	earlyMu.Unlock()
	if recOn && key == recID {
		recEvs = append(recEvs, e)
		liveNow.Store(int64(e.Live))
		if ev == "cl.slow" {
			slowSeq.Add(1)
		}
	}
	recMu.Unlock()
}

func handler(ctx mpx.Context, ch mpx.Channel) status.Status {
	for {
		msg, st := ch.Receive(ctx)
		if !st.OK() {
			return status.OK
		}
		if st := ch.Send(ctx, msg); !st.OK() {
			return st
		}
	}
}

type cfg struct {
	Max, Target int
	Auto        bool
	Seed        int64
}

func (c cfg) String() string {
	return fmt.Sprintf("max=%d target=%d auto=%v seed=%d", c.Max, c.Target, c.Auto, c.Seed)
}

func echo(cl mpx.Client, timeout time.Duration) status.Status {
	ctx := async.TimeoutContext(timeout)
	ch, st := cl.Channel(ctx)
	if !st.OK() {
		return st
	}
	defer ch.Free()
	if st := ch.Send(ctx, []byte("ping")); !st.OK() {
		return st
	}
	b, st := ch.Receive(ctx)
	if !st.OK() {
		return st
	}
	if string(b) != "ping" {
		return status.Errorf("echo mismatch %q", b)
	}
	return status.OK
}

func runOnce(run int, c cfg, found func(sig, detail string)) []Event {
	rng := rand.New(rand.NewSource(c.Seed))
	gateOn.Store(run%2 == 1)
	defer gateOn.Store(false)
	opts := mpx.Default()
	opts.Compression = false
	opts.ClientMaxConns = c.Max
	opts.ClientConnChannels = c.Target
	opts.ClientDialTimeout = 500 * time.Millisecond
	srv, err := mpxh.StartServer(mpx.HandleFunc(handler), opts)
	if err != nil {
		found("harness", err.Error())
		return nil
	}
	addr := srv.Addr
	// the client reaches the server through a proxy that makes every dial take 0..40 ms
	px, err := newSlowProxy(addr, 40, c.Seed)
	if err != nil {
		found("harness", err.Error())
		return nil
	}
	defer px.close()
	var srvMu sync.Mutex
	up := true
	stopServer := func() {
		srvMu.Lock()
		defer srvMu.Unlock()
		if up {
			srv.Stop()
			up = false
		}
	}
	startServer := func() {
		srvMu.Lock()
		defer srvMu.Unlock()
		if !up {
			for try := 0; try < 50; try++ {
				lg := mpxh.NewCapLogger()
				s := mpx.NewServer(addr, mpx.HandleFunc(handler), lg, opts)
				s.Start()
				select {
				case <-s.Listening().Wait():
					srv = &mpxh.Server{S: s, Addr: addr, Logger: lg}
					up = true
					return
				case <-time.After(100 * time.Millisecond):
					s.Stop()
				}
			}
			found("harness", "could not restart the server on "+addr)
		}
	}
	defer stopServer()

	mode := mpx.ClientMode_OnDemand
	if c.Auto {
		mode = mpx.ClientMode_AutoConnect
	}
	lg := mpxh.NewCapLogger()
	// the constructor of an auto-connect client already starts connecting: record from before it returns,
	// filtered by the client's address once it is known (events of the constructor carry it as well)
	recMu.Lock()
	recOn, recEvs = false, nil
	recMu.Unlock()
	var early []earlyEv
	earlyMu.Lock()
	earlyOn, earlyEvs = true, nil
	earlyMu.Unlock()
	cl := mpx.NewClient(px.addr(), mode, lg, opts)
	ptr := reflect.ValueOf(cl).Pointer()
	want := [4]byte{byte(ptr >> 24), byte(ptr >> 16), byte(ptr >> 8), byte(ptr)}
	recMu.Lock()
	earlyMu.Lock()
	early = earlyEvs
	earlyOn = false
	earlyMu.Unlock()
	recID = want
	for _, e := range early {
		if e.id == want {
			recEvs = append(recEvs, e.ev)
		}
	}
	recOn = true
	recMu.Unlock()

	var wg sync.WaitGroup
	var held sync.Map // channels kept open to reach the channel target
	closedAt := make(chan struct{})
	var closeOnce sync.Once
	workers := 2 + rng.Intn(3)
	for g := 0; g < workers; g++ {
		lr := rand.New(rand.NewSource(c.Seed + int64(g)*7907))
		wg.Add(1)
		go func(g int) {
			defer wg.Done()
			defer func() {
				if e := recover(); e != nil {
					found("panic:user", fmt.Sprint(e))
				}
			}()
			for k := 0; k < 8; k++ {
				switch lr.Intn(6) {
				case 0, 1:
					echo(cl, 300*time.Millisecond)
				case 2:
					// keep a channel open so that the per-connection channel target is reached
					ctx := async.TimeoutContext(300 * time.Millisecond)
					if ch, st := cl.Channel(ctx); st.OK() {
						ch.Send(ctx, []byte("hold"))
						held.Store(ch, true)
					}
				case 3:
					ctx := async.TimeoutContext(300 * time.Millisecond)
					if conn, st := cl.Conn(ctx); st.OK() && lr.Intn(2) == 0 {
						conn.Close() // lose a connection
					}
				case 4:
					if lr.Intn(2) == 0 {
						stopServer()
					} else {
						startServer()
					}
				case 5:
					time.Sleep(time.Duration(lr.Intn(3)) * time.Millisecond)
				}
			}
		}(g)
	}
	// Close at a random moment, possibly while calls are pending
	wg.Add(1)
	go func() {
		defer wg.Done()
		time.Sleep(time.Duration(rng.Intn(40)) * time.Millisecond)
		if rng.Intn(3) > 0 {
			closeOnce.Do(func() { cl.Close(); close(closedAt) })
		}
	}()
	done := make(chan struct{})
	go func() { wg.Wait(); close(done) }()
	select {
	case <-done:
	case <-time.After(tscale.D(20 * time.Second)):
		found("hang:run", "client operations did not finish within 20 s")
	}
	select {
	case <-closedAt:
		// Close is terminal and idempotent: every later call returns a closed status
		if st := cl.Close(); !st.OK() {
			found("close-not-idempotent", "second Close returned "+st.String())
		}
		for k := 0; k < 3; k++ {
			if st := echo(cl, 300*time.Millisecond); st.OK() || st.Code != status.CodeClosed {
				found("call-after-close:"+string(st.Code), "a call after Close returned "+st.String())
			}
		}
		if !cl.Closed().IsSet() || cl.Connected().IsSet() || !cl.Disconnected().IsSet() {
			found("flags-after-close", fmt.Sprintf("closed=%v connected=%v disconnected=%v", cl.Closed().IsSet(), cl.Connected().IsSet(), cl.Disconnected().IsSet()))
		}
	default:
		if c.Max >= 2 {
			staleListed(run, c, cl, startServer, &held, found)
		}
		// an outage with a call in it: the server goes away, the connections the client still holds are dropped, a call
		// is made (it fails, or is served by a connection that survived) and then the server comes back
		stopServer()
		px.pause() // dials are refused from here on
		for k := 0; k < 4; k++ {
			ctx := async.TimeoutContext(100 * time.Millisecond)
			conn, st := cl.Conn(ctx)
			if !st.OK() {
				break
			}
			conn.Close()
			time.Sleep(2 * time.Millisecond)
		}
		echo(cl, 300*time.Millisecond)
		// recovery: once the server is reachable an on-demand client succeeds on its next calls,
		// an auto-connect client reconnects by itself
		startServer()
		if err := px.resume(); err != nil {
			found("harness", "proxy: "+err.Error())
		}
		if c.Auto {
			select {
			case <-cl.Connected().Wait():
			case <-time.After(tscale.D(4 * time.Second)):
				found("no-reconnect", "auto-connect client did not become connected within 4 s after the server came back")
			}
		}
		var last status.Status
		ok := false
		for try := 0; try < 4 && !ok; try++ {
			last = echo(cl, tscale.D(2*time.Second))
			ok = last.OK()
		}
		if !ok {
			found("no-recovery", "no successful call after the server came back: "+last.String())
		}
		cl.Close()
	}
	held.Range(func(k, _ any) bool {
		func() {
			defer func() {
				if e := recover(); e != nil {
					found("panic:user", "Free of a held channel panicked: "+fmt.Sprint(e))
				}
			}()
			k.(mpx.Channel).Free()
		}()
		return true
	})
	// let the closed callbacks of the last connections run, they are part of the trace
	time.Sleep(15 * time.Millisecond)
	recMu.Lock()
	recOn = false
	evs := recEvs
	recMu.Unlock()
	for _, e := range mpxh.Panics(lg.Take()) {
		found("panic:library", e)
	}
	return evs
}

// staleListed: the client holds two connections, one of them is closed and held before it is taken off the list; as long
// as that lasts every lookup has to come back with the other one - at once, without a dial, with Connected still set.
func staleListed(run int, c cfg, cl mpx.Client, startServer func(), held *sync.Map, found func(sig, detail string)) {
	startServer()
	// start from fresh connections: one that has reported its channel target once never does so again
	for k := 0; k < c.Max+1; k++ {
		cn, st := cl.Conn(async.TimeoutContext(tscale.D(time.Second)))
		if !st.OK() {
			break
		}
		// its close listener runs last in its close: afterwards it passes no gate any more
		gone := make(chan struct{})
		if _, ok := cn.OnClosed(func() { close(gone) }); !ok {
			close(gone)
		}
		cn.Close()
		select {
		case <-gone:
		case <-time.After(tscale.D(time.Second)):
			return
		}
		time.Sleep(2 * time.Millisecond)
	}
	ctx := async.TimeoutContext(tscale.D(2 * time.Second))
	older, st := cl.Conn(ctx)
	if !st.OK() {
		return
	}
	// reach the channel target of the connection, so that the client opens a second one.  (With two open connections a
	// lookup always returns the first: the probe index is (i+j) mod n with j starting at i.  The second one shows in the
	// client's state only.)
	for try := 0; try < 200 && liveNow.Load() < 2; try++ {
		ctx := async.TimeoutContext(300 * time.Millisecond)
		if try < 4 {
			if ch, st := cl.Channel(ctx); st.OK() {
				ch.Send(ctx, []byte("hold"))
				held.Store(ch, true)
			}
		}
		time.Sleep(2 * time.Millisecond)
	}
	if liveNow.Load() < 2 || older.Closed().IsSet() {
		return
	}
	victim := older
	select {
	case <-rangeAt:
	default:
	}
	rangeArmed.Store(true)
	victim.Close()
	select {
	case <-rangeAt:
	case <-time.After(tscale.D(3 * time.Second)):
		rangeArmed.Store(false)
		if os.Getenv("MCLIENT_DEBUG") != "" {
			fmt.Fprintf(os.Stderr, "stale: gate not reached\n")
		}
		return // the connection went another way (it was closing already)
	}
	defer func() { rangeGo <- struct{}{} }()
	if !victim.Closed().IsSet() {
		return // another connection came to the gate
	}
	stalePhases.Add(1)
	slow0 := slowSeq.Load()
	var other mpx.Conn
	for k := 0; k < 64; k++ {
		t0 := time.Now()
		cn, st := cl.Conn(async.TimeoutContext(tscale.D(2 * time.Second)))
		if other == nil && st.OK() && cn != victim {
			other = cn
		}
		if other != nil && other.Closed().IsSet() {
			return // the other connection was lost meanwhile: nothing to say
		}
		switch {
		case !st.OK():
			found("stale-listed:failed", fmt.Sprintf("lookup %d failed with %v while an open connection was listed next to a closed one", k, st))
			return
		case cn == victim:
			found("stale-listed:closed", fmt.Sprintf("lookup %d returned the closed connection while an open one was listed next to it", k))
			return
		case cn != other:
			found("stale-listed:other", fmt.Sprintf("lookup %d returned a new connection after %v while an open connection was listed next to a closed one", k, time.Since(t0)))
			return
		case slowSeq.Load() != slow0:
			found("stale-listed:slow-path", fmt.Sprintf("lookup %d went through the locked path (and may have dialled) while an open connection was listed next to a closed one", k))
			return
		case !cl.Connected().IsSet() || cl.Disconnected().IsSet():
			found("stale-listed:flags", fmt.Sprintf("after lookup %d: connected=%v disconnected=%v while an open connection is listed", k, cl.Connected().IsSet(), cl.Disconnected().IsSet()))
			return
		}
	}
	// the open connection reaches its channel target while the closed one is still listed: the list is then as long as it
	// was, and whether one more connection may be opened is decided on that length (the event goes into the trace)
	if other != nil {
		for k := 0; k < c.Target; k++ {
			ctx := async.TimeoutContext(300 * time.Millisecond)
			if ch, st := other.Channel(ctx); st.OK() {
				ch.Send(ctx, []byte("hold"))
				held.Store(ch, true)
			}
		}
		time.Sleep(3 * time.Millisecond)
	}
}

func main() {
	outDir := flag.String("out", ".", "directory for trace files client_<max>_<auto>.ndjson")
	runs := flag.Int("runs", 30, "runs per configuration")
	seed := flag.Int64("seed", 1, "seed")
	flag.Parse()
	mpx.SetVerifTracer(tracer)
	enc := json.NewEncoder(os.Stdout)
	rng := rand.New(rand.NewSource(*seed))
	nFind, nEv := 0, 0
	bySig := map[string]int{}
	var fmu sync.Mutex
	for _, max := range []int{1, 2, 3} {
		for _, auto := range []bool{false, true} {
			f, err := os.Create(filepath.Join(*outDir, fmt.Sprintf("client_%d_%v.ndjson", max, auto)))
			if err != nil {
				fmt.Fprintln(os.Stderr, "harness error:", err)
				os.Exit(2)
			}
			fenc := json.NewEncoder(f)
			for r := 1; r <= *runs; r++ {
				c := cfg{Max: max, Target: 1 + rng.Intn(2), Auto: auto, Seed: rng.Int63()}
				found := func(sig, detail string) {
					fmu.Lock()
					defer fmu.Unlock()
					nFind++
					bySig[sig]++
					if bySig[sig] <= 3 {
						enc.Encode(Finding{Run: r, Sig: sig, Detail: detail, Config: c.String()})
					}
				}
				for _, e := range runOnce(r, c, found) {
					fenc.Encode(e)
					nEv++
				}
				fenc.Encode(map[string]string{"e": "reset"})
			}
			f.Close()
		}
	}
	table := make([]int, 0, 200)
	for a := 2; a <= 200; a++ {
		table = append(table, int(mpx.VerifReconnectTimeout(a)/time.Millisecond))
	}
	enc.Encode(map[string]any{"summary": map[string]any{"runs": *runs * 6, "events": nEv, "findings": nFind, "by_sig": bySig, "backoff_ms_2_200": table,
		"stale_listed_phases": stalePhases.Load()}})
}
