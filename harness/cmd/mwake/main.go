// mwake replays the schedules of MpxWake.tla on a real channel: the goroutine calling Receive is held at the rq.arm and
// rq.poll gates of the verif build and released in the model's order; a raw peer feeds the data frames ("small" fits
// the receive queue's current block, "big" needs a new block) exactly where the model puts them.  Conformance: the
// receiver must be at the gate the model names.  Verdict: every message is received, in order; a receiver that stays
// asleep although its message is queued is a lost wake-up.
package main

import (
	"encoding/json"
	"flag"
	"fmt"
	"net"
	"os"
	"runtime"
	"strconv"
	"strings"
	"sync"
	"sync/atomic"
	"time"

	"github.com/basecomplextech/baselibrary/async"
	"github.com/basecomplextech/baselibrary/bin"
	"github.com/basecomplextech/baselibrary/ref"
	"github.com/basecomplextech/baselibrary/status"
	spec "github.com/basecomplextech/spec"
	"github.com/basecomplextech/spec/mpx"
	"github.com/basecomplextech/spec/proto/pmpx"
	"github.com/basecomplextech/spec/proto/prpc"
	"github.com/basecomplextech/spec/rpc"

	"verifharness/internal/mpxh"
	"verifharness/internal/peer"
	"verifharness/internal/tlcio"
	"verifharness/internal/tscale"
)

type Rec struct {
	Msgs  []string   `json:"msgs"`
	Sched [][]string `json:"sched"`
}

type Outcome struct {
	Case   int    `json:"case"`
	Sig    string `json:"sig"`
	Detail string `json:"detail"`
	Sched  string `json:"sched"`
}

var stepTimeout = tscale.D(3 * time.Second)

const smallSize, bigSize = 16, 4096

var debug = os.Getenv("VERIF_DEBUG") != ""

func goid() int64 {
	var buf [64]byte
	n := runtime.Stack(buf[:], false)
	f := strings.Fields(string(buf[:n]))
	id, _ := strconv.ParseInt(f[1], 10, 64)
	return id
}

type arrival struct {
	gate string
	rel  chan struct{}
}

type ctl struct {
	mu       sync.Mutex
	active   bool
	target   bin.Bin128
	consumer int64
	arrive   chan arrival
	put      chan int64
	done     chan int64 // completion of the receiver's arm / poll step (1 = the poll returned a message)
	prefix   string     // "rq." or "wq."
	// send-loop layer: frames queued, frames taken by the send loop, and how many it had taken when it last found the
	// queue empty.  The loop is idle when it found the queue empty after taking everything that was queued (the put event
	// of a frame may be reported after the send loop has taken that frame).
	puts, gots, emptyAt atomic.Int64
}

func (c *ctl) isIdle() bool {
	g := c.gots.Load()
	return c.puts.Load() == g && c.emptyAt.Load() == g && g > 0
}

func (c *ctl) trace(ev string, id bin.Bin128, a, b int64) {
	// the send-loop layer watches the connection's write queue (wq.*), the others a channel's receive queue (rq.*)
	if len(ev) < 4 || ev[:3] != c.prefix {
		return
	}
	ev = "rq." + ev[3:]
	switch ev {
	case "rq.arm", "rq.poll", "rq.put", "rq.arm.done", "rq.poll.done":
	default:
		return
	}
	if c.prefix == "wq." {
		// idle: the send loop polled an empty queue and nothing was queued since
		switch {
		case ev == "rq.put":
			c.puts.Add(1)
		case ev == "rq.poll.done" && a == 1:
			c.gots.Add(1)
		case ev == "rq.poll.done" && a == 0:
			c.emptyAt.Store(c.gots.Load())
		}
	}
	c.mu.Lock()
	if debug {
		fmt.Fprintf(os.Stderr, "ev %s g=%d consumer=%d active=%v target=%v a=%d\n", ev, goid(), c.consumer, c.active, id == c.target, a)
	}
	if !c.active || id != c.target {
		c.mu.Unlock()
		return
	}
	if ev == "rq.put" {
		c.mu.Unlock()
		select {
		case c.put <- a:
		default:
		}
		return
	}
	if c.prefix != "wq." && goid() != c.consumer {
		c.mu.Unlock()
		return
	}
	c.mu.Unlock()
	if ev == "rq.arm.done" || ev == "rq.poll.done" {
		select {
		case c.done <- a:
		default:
		}
		return
	}
	rel := make(chan struct{})
	c.arrive <- arrival{ev, rel}
	<-rel
}

// free lets every parked or future arrival pass.
func (c *ctl) free() {
	c.mu.Lock()
	c.active = false
	c.mu.Unlock()
	for {
		select {
		case a := <-c.arrive:
			close(a.rel)
		case <-time.After(20 * time.Millisecond):
			return
		}
	}
}

type rawServer struct {
	ln  net.Listener
	p   *peer.Peer
	got chan peer.Frame
}

func (s *rawServer) accept() error {
	c, err := s.ln.Accept()
	if err != nil {
		return err
	}
	p := peer.Wrap(c)
	if _, err := p.ReadLine(stepTimeout); err != nil {
		return err
	}
	if _, err := p.ReadFrame(stepTimeout); err != nil {
		return err
	}
	if err := p.WriteRaw([]byte(peer.ProtocolLine)); err != nil {
		return err
	}
	resp, err := pmpx.BuildConnectResponse(pmpx.Version_Version10, pmpx.ConnectCompression_None)
	if err != nil {
		return err
	}
	if err := p.WriteFrame(resp.Unwrap().Raw()); err != nil {
		return err
	}
	s.p = p
	go func() {
		for {
			f, err := p.ReadFrame(time.Hour)
			if err != nil {
				close(s.got)
				return
			}
			for _, g := range f.Flatten() {
				select {
				case s.got <- g:
				default:
				}
			}
		}
	}()
	return nil
}

func (s *rawServer) waitOpen() (bin.Bin128, error) {
	deadline := time.After(stepTimeout)
	for {
		select {
		case f, ok := <-s.got:
			if !ok {
				return bin.Bin128{}, fmt.Errorf("connection ended")
			}
			if f.Code == pmpx.Code_ChannelOpen {
				return f.ID, nil
			}
		case <-deadline:
			return bin.Bin128{}, fmt.Errorf("no open frame")
		}
	}
}

func schedString(r *Rec) string {
	var b strings.Builder
	for i, s := range r.Sched {
		if i > 0 {
			b.WriteString(" ")
		}
		b.WriteString(s[0] + ":" + s[1])
	}
	return b.String()
}

func payload(kind string, k int) []byte {
	n := smallSize
	if kind == "big" {
		n = bigSize
	}
	b := make([]byte, n)
	for i := range b {
		b[i] = byte(k + 1)
	}
	return b
}

// layer is the receiving side under test: a plain mpx channel, or the rpc client's streaming channel on top of one.
type layer struct {
	// open starts a channel whose receiving side is under test and returns its id on the wire
	open  func() (recv func(async.Context) ([]byte, status.Status), free func(), id bin.Bin128, err error)
	frame func(kind string, k int) []byte // the bytes the peer puts into the data frame
	peer  func() *peer.Peer               // the raw peer which produces the data frames
	// produce, when set, queues the k-th message instead of the raw peer (send-loop layer: a Send of the library itself)
	produce func(kind string, k int) error
}

func runSchedule(idx int, rec *Rec, c *ctl, ly *layer, srv *rawServer, report func(sig, detail string)) (fatal bool) {
	recv, free, id, err := ly.open()
	if err != nil {
		report("harness", err.Error())
		return true
	}
	defer free()
	type result struct {
		sizes []int
		st    string
	}
	resc := make(chan result, 1)
	ready := make(chan struct{})
	go func() {
		c.mu.Lock()
		c.target, c.consumer, c.active = id, goid(), true
		if c.prefix == "wq." {
			c.target = bin.Bin128{} // connection-level events carry no channel id
		}
		c.mu.Unlock()
		close(ready)
		var r result
		rctx := async.TimeoutContext(tscale.D(6 * time.Second))
		for i := 0; i < len(rec.Msgs); i++ {
			b, st := recv(rctx)
			if !st.OK() {
				r.st = string(st.Code)
				break
			}
			r.sizes = append(r.sizes, len(b))
		}
		resc <- r
	}()
	<-ready
	var parked *arrival
	waitParked := func() (string, bool) {
		if parked != nil {
			return parked.gate, true
		}
		select {
		case a := <-c.arrive:
			parked = &a
			return a.gate, true
		case <-time.After(stepTimeout):
			return "", false
		}
	}
	sent := 0
	ok := true
	for k, s := range rec.Sched {
		if s[0] == "P" {
			var err error
			if ly.produce != nil {
				err = ly.produce(s[1], sent)
			} else {
				err = ly.peer().WriteFrame(peer.Data(id, ly.frame(s[1], sent)))
			}
			if err != nil {
				report("harness", "write: "+err.Error())
				c.free()
				return true
			}
			sent++
			select {
			case <-c.put:
			case <-time.After(stepTimeout):
				report("no-put", fmt.Sprintf("step %d: the data frame was not queued on the channel within %v", k, stepTimeout))
				ok = false
			}
		} else if s[1] != "wake" {
			gate, got := waitParked()
			if !got {
				report("stuck:"+s[1], fmt.Sprintf("step %d: the receiver did not reach gate %q within %v (lost wake-up?)", k, s[1], stepTimeout))
				ok = false
			} else if gate != s[1] {
				report("gate:"+gate, fmt.Sprintf("step %d: the receiver is at gate %q, the model says %q", k, gate, s[1]))
				ok = false
			} else {
				for len(c.done) > 0 {
					<-c.done
				}
				close(parked.rel)
				parked = nil
				// the step is over when the operation has returned: only then may the next step of the schedule happen
				select {
				case a := <-c.done:
					if s[1] == "rq.poll" && len(s) > 2 && (a == 1) != (s[2] == "got") {
						report("poll:"+s[2], fmt.Sprintf("step %d: the poll returned a message: %v, the model says %q", k, a == 1, s[2]))
						ok = false
					}
				case <-time.After(stepTimeout):
					report("stuck-in:"+s[1], fmt.Sprintf("step %d: %s did not return within %v", k, s[1], stepTimeout))
					ok = false
				}
			}
		}
		if !ok {
			break
		}
	}
	if parked != nil {
		close(parked.rel)
	}
	c.free()
	select {
	case r := <-resc:
		if r.st != "" && !ok {
			// the schedule was abandoned after a conformance failure: the rest of its messages was never sent
		} else if r.st != "" {
			sig := "receive-status:" + r.st
			if r.st == "timeout" {
				sig = "hang:lost-wakeup"
			}
			report(sig, fmt.Sprintf("Receive returned %s after %d of %d messages although all were queued", r.st, len(r.sizes), len(rec.Msgs)))
		} else if ok {
			for i, k := range rec.Msgs {
				want := smallSize
				if k == "big" {
					want = bigSize
				}
				if r.sizes[i] != want {
					report("order", fmt.Sprintf("message %d has %d bytes, want %d", i, r.sizes[i], want))
				}
			}
		}
	case <-time.After(tscale.D(8 * time.Second)):
		if ok {
			report("hang:lost-wakeup", "Receive did not return although every message was queued")
		}
		return true
	}
	return false
}

func main() {
	in := flag.String("in", "", "TLC output with schedules")
	every := flag.Int("every", 1, "replay every n-th schedule")
	seed := flag.Int("seed", 1, "offset for -every")
	layerName := flag.String("layer", "mpx", "mpx: Channel.Receive; rpc: the rpc client's streaming Receive")
	flag.Parse()
	c := &ctl{arrive: make(chan arrival, 16), put: make(chan int64, 16), done: make(chan int64, 16), prefix: "rq."}
	if *layerName == "sendloop" {
		c.prefix = "wq."
	}
	mpx.SetVerifTracer(c.trace)
	enc := json.NewEncoder(os.Stdout)
	nMis, n, steps := 0, 0, 0
	bySig := map[string]int{}
	var conn mpx.Conn
	var rcl rpc.Client
	var srv *rawServer
	var lg *mpxh.CapLogger
	ly := &layer{}
	stopServer := func() {}
	connect := func() error {
		ln, err := net.Listen("tcp", "127.0.0.1:0")
		if err != nil {
			return err
		}
		srv = &rawServer{ln: ln, got: make(chan peer.Frame, 256)}
		accErr := make(chan error, 1)
		go func() { accErr <- srv.accept() }()
		lg = mpxh.NewCapLogger()
		rpcFrame := func(kind string, k int) []byte {
			w := prpc.NewMessageWriter()
			w.Type(prpc.MessageType_Message)
			w.Msg(payload(kind, k))
			m, err := w.Build()
			if err != nil {
				panic("harness: " + err.Error())
			}
			return append([]byte{}, m.Unwrap().Raw()...)
		}
		if *layerName == "rpcserver" {
			// the receiving side is the rpc server's channel inside a handler; the raw peer is the client
			ln.Close()
			type hinfo struct {
				ch      rpc.ServerChannel
				release chan struct{}
			}
			handlers := make(chan hinfo, 4)
			opts := rpc.Default()
			opts.Compression = false
			rsrv := rpc.NewServer("127.0.0.1:0", rpc.HandleFunc(func(ctx rpc.Context, ch rpc.ServerChannel) (ref.R[[]byte], status.Status) {
				h := hinfo{ch, make(chan struct{})}
				handlers <- h
				<-h.release
				return nil, status.OK
			}), lg, opts)
			if st := rsrv.Start(); !st.OK() {
				return fmt.Errorf("rpc server: %v", st)
			}
			select {
			case <-rsrv.Listening().Wait():
			case <-time.After(stepTimeout):
				return fmt.Errorf("rpc server not listening")
			}
			stopServer = func() { rsrv.Stop() }
			cp, err := peer.Dial(rsrv.Address())
			if err != nil {
				return err
			}
			if f, err := cp.HandshakeClient(false); err != nil || !f.OK {
				return fmt.Errorf("handshake: %v %+v", err, f)
			}
			go func() { // drain what the server sends
				for {
					if _, err := cp.ReadFrame(time.Hour); err != nil {
						return
					}
				}
			}()
			srv = &rawServer{ln: ln, p: cp}
			next := 0
			ly.open = func() (func(async.Context) ([]byte, status.Status), func(), bin.Bin128, error) {
				next++
				id := peer.ID(next)
				w := prpc.NewMessageWriter()
				w.Type(prpc.MessageType_Request)
				rw := w.Req()
				calls := rw.Calls()
				call := calls.Add()
				call.Method("stream")
				if err := call.End(); err != nil {
					return nil, nil, id, err
				}
				if err := calls.End(); err != nil {
					return nil, nil, id, err
				}
				if err := rw.End(); err != nil {
					return nil, nil, id, err
				}
				m, err := w.Build()
				if err != nil {
					return nil, nil, id, err
				}
				if err := cp.WriteFrame(peer.Open(id, 1<<20, m.Unwrap().Raw())); err != nil {
					return nil, nil, id, err
				}
				select {
				case h := <-handlers:
					return h.ch.Receive, func() { close(h.release) }, id, nil
				case <-time.After(stepTimeout):
					return nil, nil, id, fmt.Errorf("the rpc handler did not start")
				}
			}
			ly.frame = rpcFrame
			ly.peer = func() *peer.Peer { return cp }
			return nil
		}
		if *layerName == "rpc" {
			opts := rpc.Default()
			opts.Compression = false
			opts.ClientMaxConns = 1
			rcl = rpc.NewClient(ln.Addr().String(), mpx.ClientMode_OnDemand, lg, opts)
			first := true
			ly.open = func() (func(async.Context) ([]byte, status.Status), func(), bin.Bin128, error) {
				r := rpc.NewRequest()
				w := spec.NewMessageWriter()
				w.Field(1).Int64(1)
				b, err := w.Build()
				if err != nil {
					return nil, nil, bin.Bin128{}, err
				}
				in, _, err := spec.ParseMessage(append([]byte{}, b...))
				if err != nil {
					return nil, nil, bin.Bin128{}, err
				}
				if st := r.AddMessage("stream", in); !st.OK() {
					return nil, nil, bin.Bin128{}, fmt.Errorf("%v", st)
				}
				req, st := r.Build()
				if !st.OK() {
					return nil, nil, bin.Bin128{}, fmt.Errorf("%v", st)
				}
				ch, st := rcl.Channel(async.TimeoutContext(stepTimeout), req)
				if !st.OK() {
					r.Free()
					return nil, nil, bin.Bin128{}, fmt.Errorf("rpc channel: %v", st)
				}
				if first {
					first = false
					if err := <-accErr; err != nil {
						return nil, nil, bin.Bin128{}, err
					}
				}
				id, err := srv.waitOpen()
				if err != nil {
					return nil, nil, id, err
				}
				return ch.Receive, func() { ch.Free(); r.Free() }, id, nil
			}
			ly.peer = func() *peer.Peer { return srv.p }
			// a streamed rpc message: prpc.Message{type: MESSAGE, msg: payload}
			ly.frame = rpcFrame
			return nil
		}
		opts := mpx.Default()
		opts.Compression = false
		cn, s := mpx.Connect(async.NoContext(), ln.Addr().String(), lg, opts)
		if !s.OK() {
			return fmt.Errorf("connect: %v", s)
		}
		if err := <-accErr; err != nil {
			return err
		}
		conn = cn
		if *layerName == "sendloop" {
			// the consumer is the connection's send loop, the producer the library's own Send, the observer the raw peer
			var cur mpx.Channel
			ly.open = func() (func(async.Context) ([]byte, status.Status), func(), bin.Bin128, error) {
				ch, st := conn.Channel(async.NoContext())
				if !st.OK() {
					return nil, nil, bin.Bin128{}, fmt.Errorf("channel: %v", st)
				}
				if st := ch.Send(async.NoContext(), []byte("open")); !st.OK() {
					ch.Free()
					return nil, nil, bin.Bin128{}, fmt.Errorf("send: %v", st)
				}
				id, err := srv.waitOpen()
				if err != nil {
					ch.Free()
					return nil, nil, id, err
				}
				deadline := time.Now().Add(stepTimeout)
				for !c.isIdle() && time.Now().Before(deadline) {
					time.Sleep(100 * time.Microsecond)
				}
				if !c.isIdle() {
					ch.Free()
					return nil, nil, id, fmt.Errorf("the send loop did not become idle")
				}
				cur = ch
				recv := func(ctx async.Context) ([]byte, status.Status) {
					for {
						select {
						case f, ok := <-srv.got:
							if !ok {
								return nil, status.Closedf("peer connection ended")
							}
							if f.Code == pmpx.Code_ChannelData && f.ID == id {
								return f.Data, status.OK
							}
						case <-ctx.Wait():
							return nil, ctx.Status()
						}
					}
				}
				return recv, ch.Free, id, nil
			}
			ly.produce = func(kind string, k int) error {
				if st := cur.Send(async.TimeoutContext(stepTimeout), payload(kind, k)); !st.OK() {
					return fmt.Errorf("send: %v", st)
				}
				return nil
			}
			ly.frame = payload
			ly.peer = func() *peer.Peer { return srv.p }
			return nil
		}
		ly.open = func() (func(async.Context) ([]byte, status.Status), func(), bin.Bin128, error) {
			ch, st := conn.Channel(async.NoContext())
			if !st.OK() {
				return nil, nil, bin.Bin128{}, fmt.Errorf("channel: %v", st)
			}
			if st := ch.Send(async.NoContext(), []byte("open")); !st.OK() {
				ch.Free()
				return nil, nil, bin.Bin128{}, fmt.Errorf("send: %v", st)
			}
			id, err := srv.waitOpen()
			if err != nil {
				ch.Free()
				return nil, nil, id, err
			}
			return ch.Receive, ch.Free, id, nil
		}
		ly.frame = payload
		ly.peer = func() *peer.Peer { return srv.p }
		return nil
	}
	if err := connect(); err != nil {
		fmt.Fprintln(os.Stderr, "harness error:", err)
		os.Exit(2)
	}
	err := tlcio.Lines(*in, func(i int, raw []byte) error {
		if *every > 1 && (i+*seed)%*every != 0 {
			return nil
		}
		if nMis >= 12 {
			return nil
		}
		var rec Rec
		if err := json.Unmarshal(raw, &rec); err != nil {
			return err
		}
		fatal := runSchedule(i, &rec, c, ly, srv, func(sig, detail string) {
			nMis++
			bySig[sig]++
			if bySig[sig] <= 3 {
				enc.Encode(Outcome{Case: i, Sig: sig, Detail: detail, Sched: schedString(&rec) + " msgs=" + strings.Join(rec.Msgs, ",")})
			}
		})
		n++
		steps += len(rec.Sched)
		for _, p := range mpxh.Panics(lg.Take()) {
			nMis++
			bySig["panic:library"]++
			enc.Encode(Outcome{Case: i, Sig: "panic:library", Detail: p, Sched: schedString(&rec)})
		}
		if fatal {
			// a stuck receiver still holds the channel: continue on a fresh connection
			old, oldCl, oldSrv, oldStop := conn, rcl, srv, stopServer
			go func() {
				oldStop()
				if old != nil {
					old.Close()
				}
				if oldCl != nil {
					oldCl.Close()
				}
				if oldSrv.p != nil {
					oldSrv.p.Close()
				}
				oldSrv.ln.Close()
			}()
			if err := connect(); err != nil {
				return err
			}
		}
		return nil
	})
	if err != nil {
		fmt.Fprintln(os.Stderr, "harness error:", err)
		os.Exit(2)
	}
	enc.Encode(map[string]any{"summary": map[string]any{"schedules": n, "steps": steps, "mismatches": nMis, "by_sig": bySig}})
}
