// mblocked replays the schedules of MpxBlocked.tla: a Send, SendAndClose or Free on channel X that is blocked on the
// connection's full write queue (the raw peer has stopped reading, filler channels have filled the socket buffers and the
// queue) while the peer ends X ("peerclose") and the congestion ends ("drain": the peer reads again, "drop": the peer
// drops the connection), in every order.  Conformance: after every step the operation has returned or is still waiting as
// the model says, with the model's status class.  Verdict: nothing panics, nothing hangs, and after a drain the peer has
// received intact, in-order frames of the filler channels and exactly the model's number of frames for X.
package main

import (
	"bytes"
	"encoding/json"
	"flag"
	"fmt"
	"net"
	"os"
	"sync"
	"sync/atomic"
	"time"

	"github.com/basecomplextech/baselibrary/async"
	"github.com/basecomplextech/baselibrary/bin"
	"github.com/basecomplextech/baselibrary/status"
	"github.com/basecomplextech/baselibrary/units"
	"github.com/basecomplextech/spec/mpx"
	"github.com/basecomplextech/spec/proto/pmpx"

	"verifharness/internal/mpxh"
	"verifharness/internal/peer"
	"verifharness/internal/tlcio"
	"verifharness/internal/tscale"
)

type Step struct {
	A      string `json:"a"`
	Phase  string `json:"phase"`
	Result string `json:"result"`
}

type Rec struct {
	Cause  string `json:"cause"`
	Op     string `json:"op"`
	Sched  []Step `json:"sched"`
	Result string `json:"result"`
	Enq    int    `json:"enq"`
}

type Outcome struct {
	Case   int    `json:"case"`
	Sig    string `json:"sig"`
	Detail string `json:"detail"`
	Sched  string `json:"sched"`
}

var (
	stepTimeout = tscale.D(4 * time.Second)
	settle      = tscale.D(40 * time.Millisecond)
)

func schedString(r *Rec) string {
	s := r.Op + ":"
	for _, st := range r.Sched {
		s += " " + st.A
	}
	return s
}

func accept(ln net.Listener) (*peer.Peer, error) {
	c, err := ln.Accept()
	if err != nil {
		return nil, err
	}
	p := peer.Wrap(c)
	if _, err := p.ReadLine(stepTimeout); err != nil {
		return nil, err
	}
	if _, err := p.ReadFrame(stepTimeout); err != nil {
		return nil, err
	}
	if err := p.WriteRaw([]byte(peer.ProtocolLine)); err != nil {
		return nil, err
	}
	resp, err := pmpx.BuildConnectResponse(pmpx.Version_Version10, pmpx.ConnectCompression_None)
	if err != nil {
		return nil, err
	}
	if err := p.WriteFrame(resp.Unwrap().Raw()); err != nil {
		return nil, err
	}
	return p, nil
}

func fill(ch, seq, n int) []byte {
	b := make([]byte, n)
	for i := range b {
		b[i] = byte(ch*31 + seq*7 + i)
	}
	if n >= 4 {
		b[0], b[1], b[2], b[3] = 'F', byte(ch), byte(seq>>8), byte(seq)
	}
	return b
}

type opResult struct {
	st    status.Status
	panic string
}

func runSchedule(idx int, rec *Rec, report func(sig, detail string)) (conclusive bool) {
	ln, err := net.Listen("tcp", "127.0.0.1:0")
	if err != nil {
		report("harness", err.Error())
		return
	}
	defer ln.Close()
	type acc struct {
		p   *peer.Peer
		err error
	}
	accc := make(chan acc, 1)
	go func() { p, err := accept(ln); accc <- acc{p, err} }()
	lg := mpxh.NewCapLogger()
	opts := mpx.Default()
	opts.Compression = false
	opts.WriteQueueSize = 4096
	opts.WriteBufferSize = 4096
	opts.ChannelWindowSize = 64 * units.MiB
	conn, st := mpx.Connect(async.NoContext(), ln.Addr().String(), lg, opts)
	if !st.OK() {
		report("harness", "connect: "+st.String())
		return
	}
	defer conn.Close()
	a := <-accc
	if a.err != nil {
		report("harness", "accept: "+a.err.Error())
		return
	}
	p := a.p
	defer p.Close()

	// channels: X and three fillers with frames of decreasing size
	open := func(tag string) (mpx.Channel, bin.Bin128, bool) {
		ch, st := conn.Channel(async.TimeoutContext(stepTimeout))
		if !st.OK() {
			report("harness", "channel: "+st.String())
			return nil, bin.Bin128{}, false
		}
		if st := ch.Send(async.TimeoutContext(stepTimeout), []byte(tag)); !st.OK() {
			report("harness", "opening send: "+st.String())
			return nil, bin.Bin128{}, false
		}
		deadline := time.Now().Add(stepTimeout)
		for time.Now().Before(deadline) {
			f, err := p.ReadFrame(stepTimeout)
			if err != nil {
				break
			}
			for _, g := range f.Flatten() {
				if g.Code == pmpx.Code_ChannelOpen && string(g.Data) == tag {
					return ch, g.ID, true
				}
			}
		}
		report("harness", "the peer did not see the open frame of "+tag)
		return nil, bin.Bin128{}, false
	}
	x, xid, ok := open("x-open")
	if !ok {
		return
	}
	xctx := x.Context() // taken now: the context of a freed channel cannot be asked for
	sizes := []int{16384, 100, 4}
	var fillers []mpx.Channel
	var fids []bin.Bin128
	xFreed := false
	for i := range sizes {
		ch, id, ok := open(fmt.Sprintf("f%d-open", i))
		if !ok {
			return
		}
		fillers = append(fillers, ch)
		fids = append(fids, id)
	}
	defer func() {
		all := fillers
		if !xFreed {
			all = append(all, x)
		}
		// a Free may have to wait for room in the write queue: end the congestion first, and never wait for ever
		p.Close()
		conn.Close()
		done := make(chan struct{})
		go func() {
			defer close(done)
			for _, ch := range all {
				func() {
					defer func() { recover() }()
					ch.Free()
				}()
			}
		}()
		select {
		case <-done:
		case <-time.After(stepTimeout):
		}
	}()
	// congestion: each filler sends until its Send blocks; the next filler starts once the previous one is blocked
	var fwg sync.WaitGroup
	var sent [3]atomic.Int32
	var progress atomic.Int64
	stopFill := make(chan struct{})
	startFiller := func(i int) {
		fwg.Add(1)
		go func() {
			defer fwg.Done()
			defer func() {
				if e := recover(); e != nil {
					report("panic:user", fmt.Sprintf("filler %d: %v", i, e))
				}
			}()
			for seq := 1; seq < 60000; seq++ {
				select {
				case <-stopFill:
					return
				default:
				}
				st := fillers[i].Send(async.TimeoutContext(tscale.D(20*time.Second)), fill(i, seq, sizes[i]))
				if !st.OK() {
					return
				}
				sent[i].Store(int32(seq))
				progress.Add(1)
			}
		}()
	}
	waitBlocked := func() bool {
		last, since := progress.Load(), time.Now()
		deadline := time.Now().Add(stepTimeout)
		for time.Now().Before(deadline) {
			time.Sleep(5 * time.Millisecond)
			if cur := progress.Load(); cur != last {
				last, since = cur, time.Now()
			} else if time.Since(since) > settle {
				return true
			}
		}
		return false
	}
	for i := range sizes {
		startFiller(i)
		if !waitBlocked() {
			report("harness", "no congestion: the fillers keep sending although the peer does not read")
			close(stopFill)
			return
		}
	}

	// the operation
	resc := make(chan opResult, 1)
	var result *opResult
	startOp := func() {
		xFreed = rec.Op == "free"
		go func() {
			var r opResult
			defer func() {
				if e := recover(); e != nil {
					r.panic = fmt.Sprint(e)
				}
				resc <- r
			}()
			ctx := async.TimeoutContext(tscale.D(20 * time.Second))
			switch rec.Op {
			case "send":
				r.st = x.Send(ctx, fill(9, 1, 64))
			case "sendclose":
				r.st = x.SendAndClose(ctx, fill(9, 2, 64))
			case "free":
				x.Free()
				r.st = status.OK
			}
		}()
	}
	poll := func(d time.Duration) bool {
		if result != nil {
			return true
		}
		select {
		case r := <-resc:
			result = &r
			return true
		case <-time.After(d):
			return false
		}
	}
	// the peer's reader (after a drain): collects frames
	var pmu sync.Mutex
	var frames []peer.Frame
	readerDone := make(chan struct{})
	drain := func() {
		go func() {
			defer close(readerDone)
			for {
				f, err := p.ReadFrame(time.Hour)
				if err != nil {
					return
				}
				pmu.Lock()
				frames = append(frames, f.Flatten()...)
				pmu.Unlock()
			}
		}()
	}
	conclusive = true
	drained, dropped := false, false
	for k, s := range rec.Sched {
		switch s.A {
		case "start":
			startOp()
		case "peerclose":
			if err := p.WriteFrame(peer.CloseMsg(xid, nil)); err != nil {
				report("harness", "peer close write: "+err.Error())
				return false
			}
			// processed once the channel's context is cancelled
			select {
			case <-xctx.Wait():
			case <-time.After(stepTimeout):
				report("stuck:peerclose", fmt.Sprintf("step %d: the peer's close frame did not end the channel within %v", k, stepTimeout))
				close(stopFill)
				return
			}
		case "drain":
			drained = true
			drain()
		case "drop", "halfclose":
			dropped = true
			if tc, ok := p.C.(*net.TCPConn); ok && s.A == "halfclose" {
				tc.CloseWrite() // only the peer's sending side ends; it still does not read
			} else {
				p.Close()
			}
			select {
			case <-conn.Closed().Wait():
			case <-time.After(stepTimeout):
				report("stuck:"+s.A, fmt.Sprintf("step %d: the connection did not close within %v after the peer's %s", k, stepTimeout, s.A))
				close(stopFill)
				return
			}
		}
		switch s.Phase {
		case "none":
		case "waiting":
			if poll(settle) {
				// the frame found room in the queue's last block: the congestion could not be produced for this frame size
				conclusive = false
			}
		case "returned":
			if !poll(stepTimeout) {
				report("hang:"+rec.Op, fmt.Sprintf("step %d (%s): the model says %s has returned, it is still blocked after %v", k, s.A, rec.Op, stepTimeout))
				close(stopFill)
				if !drained && !dropped {
					p.Close()
				}
				return
			}
		}
		if !conclusive {
			break
		}
		if result != nil && s.Phase == "returned" {
			if result.panic != "" {
				report("panic:"+rec.Op, fmt.Sprintf("step %d (%s): %s panicked: %s", k, s.A, rec.Op, result.panic))
				break
			}
			got := "ok"
			if !result.st.OK() {
				got = "closed"
				switch result.st.Code {
				case status.CodeClosed, status.CodeCancelled, status.CodeEnd:
				default:
					got = string(result.st.Code)
				}
			}
			if got != s.Result {
				report("result:"+rec.Op+":"+got, fmt.Sprintf("step %d (%s): %s returned %v, the model says %q", k, s.A, rec.Op, result.st, s.Result))
			}
		}
	}
	close(stopFill)
	if !drained && !dropped {
		// end of a schedule that was cut short
		p.Close()
	}
	if drained && conclusive {
		// everything queued reaches the peer: fillers stop after their current Send
		fdone := make(chan struct{})
		go func() { fwg.Wait(); close(fdone) }()
		select {
		case <-fdone:
		case <-time.After(stepTimeout):
			report("hang:filler", "a filler Send did not return after the peer started reading again")
		}
		// the write queue is first-in first-out over all channels: once a marker sent now has arrived, everything
		// queued before it has arrived as well
		marker := []byte("END-OF-SCHEDULE")
		if st := fillers[0].Send(async.TimeoutContext(stepTimeout), marker); !st.OK() {
			report("marker", "Send of the end marker failed after the drain: "+st.String())
		}
		var got []peer.Frame
		deadline := time.Now().Add(stepTimeout)
		for seen := false; !seen && time.Now().Before(deadline); {
			time.Sleep(2 * time.Millisecond)
			pmu.Lock()
			for k := len(got); k < len(frames); k++ {
				if bytes.Equal(frames[k].Data, marker) {
					seen = true
				}
			}
			got = append(got[:0], frames...)
			pmu.Unlock()
		}
		if n := len(got); n == 0 || !bytes.Equal(got[n-1].Data, marker) {
			report("marker", fmt.Sprintf("the end marker did not reach the peer within %v after it started reading again", stepTimeout))
		} else {
			got = got[:n-1]
		}
		next := [3]int{1, 1, 1}
		xframes := 0
		for _, f := range got {
			if f.ID == xid {
				switch f.Code {
				case pmpx.Code_ChannelData, pmpx.Code_ChannelClose:
					xframes++
					want := []byte(nil)
					if rec.Op == "send" {
						want = fill(9, 1, 64)
					} else if rec.Op == "sendclose" {
						want = fill(9, 2, 64)
					}
					if !bytes.Equal(f.Data, want) && !(len(f.Data) == 0 && len(want) == 0) {
						report("corrupt:x", fmt.Sprintf("frame of X carries %d bytes that are not the payload of %s", len(f.Data), rec.Op))
					}
					if (rec.Op == "send") != (f.Code == pmpx.Code_ChannelData) {
						report("frame-kind", fmt.Sprintf("%s put a frame with code %v on the wire", rec.Op, f.Code))
					}
				}
				continue
			}
			for i := range fids {
				if f.ID == fids[i] && f.Code == pmpx.Code_ChannelData {
					if !bytes.Equal(f.Data, fill(i, next[i], sizes[i])) {
						report("corrupt:filler", fmt.Sprintf("filler %d: frame %d is not the %d-th message sent", i, next[i], next[i]))
					}
					next[i]++
				}
			}
		}
		for i := range fids {
			if next[i]-1 < int(sent[i].Load()) {
				report("lost:filler", fmt.Sprintf("filler %d: %d Sends returned OK, the peer received %d messages", i, sent[i].Load(), next[i]-1))
			}
		}
		if xframes != rec.Enq {
			report("frames:x", fmt.Sprintf("%s put %d frames of X on the wire, the model says %d", rec.Op, xframes, rec.Enq))
		}
	}
	for _, e := range mpxh.Panics(lg.Take()) {
		report("panic:library", e)
	}
	return conclusive
}

// runWindowSchedule: the Send on X waits for send window (the peer reads everything but grants nothing); "drain" is the
// peer's window update.  Afterwards the connection must still deliver frames to a sibling channel.
func runWindowSchedule(idx int, rec *Rec, report func(sig, detail string)) bool {
	ln, err := net.Listen("tcp", "127.0.0.1:0")
	if err != nil {
		report("harness", err.Error())
		return false
	}
	defer ln.Close()
	type acc struct {
		p   *peer.Peer
		err error
	}
	accc := make(chan acc, 1)
	go func() { p, err := accept(ln); accc <- acc{p, err} }()
	lg := mpxh.NewCapLogger()
	opts := mpx.Default()
	opts.Compression = false
	opts.ChannelWindowSize = 4096
	conn, st := mpx.Connect(async.NoContext(), ln.Addr().String(), lg, opts)
	if !st.OK() {
		report("harness", "connect: "+st.String())
		return false
	}
	defer conn.Close()
	a := <-accc
	if a.err != nil {
		report("harness", "accept: "+a.err.Error())
		return false
	}
	p := a.p
	defer p.Close()
	// the peer reads everything, all the time
	var pmu sync.Mutex
	var frames []peer.Frame
	go func() {
		for {
			f, err := p.ReadFrame(time.Hour)
			if err != nil {
				return
			}
			pmu.Lock()
			frames = append(frames, f.Flatten()...)
			pmu.Unlock()
		}
	}()
	find := func(ok func(f peer.Frame) bool) (peer.Frame, bool) {
		deadline := time.Now().Add(stepTimeout)
		for time.Now().Before(deadline) {
			pmu.Lock()
			for _, f := range frames {
				if ok(f) {
					pmu.Unlock()
					return f, true
				}
			}
			pmu.Unlock()
			time.Sleep(time.Millisecond)
		}
		return peer.Frame{}, false
	}
	open := func(tag string) (mpx.Channel, bin.Bin128, bool) {
		ch, st := conn.Channel(async.TimeoutContext(stepTimeout))
		if !st.OK() {
			report("harness", "channel: "+st.String())
			return nil, bin.Bin128{}, false
		}
		if st := ch.Send(async.TimeoutContext(stepTimeout), []byte(tag)); !st.OK() {
			report("harness", "opening send: "+st.String())
			return nil, bin.Bin128{}, false
		}
		f, ok := find(func(f peer.Frame) bool { return f.Code == pmpx.Code_ChannelOpen && string(f.Data) == tag })
		if !ok {
			report("harness", "the peer did not see the open frame of "+tag)
		}
		return ch, f.ID, ok
	}
	x, xid, ok := open("x-open")
	if !ok {
		return false
	}
	sib, sid, ok := open("s-open")
	if !ok {
		return false
	}
	xctx := x.Context()
	xFreed := false
	defer func() {
		p.Close()
		conn.Close()
		done := make(chan struct{})
		go func() {
			defer close(done)
			for _, ch := range []mpx.Channel{x, sib} {
				if ch == x && xFreed {
					continue
				}
				func() {
					defer func() { recover() }()
					ch.Free()
				}()
			}
		}()
		select {
		case <-done:
		case <-time.After(stepTimeout):
		}
	}()
	// use the window up: 4096 - len("x-open") more bytes are admitted
	if st := x.Send(async.TimeoutContext(stepTimeout), fill(8, 1, 4096-6)); !st.OK() {
		report("harness", "the Send which uses up the window failed: "+st.String())
		return false
	}
	payload := fill(9, 1, 64)
	resc := make(chan opResult, 1)
	var result *opResult
	poll := func(d time.Duration) bool {
		if result != nil {
			return true
		}
		select {
		case r := <-resc:
			result = &r
			return true
		case <-time.After(d):
			return false
		}
	}
	dropped := false
	for k, s := range rec.Sched {
		switch s.A {
		case "start":
			go func() {
				var r opResult
				defer func() {
					if e := recover(); e != nil {
						r.panic = fmt.Sprint(e)
					}
					resc <- r
				}()
				r.st = x.Send(async.TimeoutContext(tscale.D(20*time.Second)), payload)
			}()
		case "peerclose":
			if err := p.WriteFrame(peer.CloseMsg(xid, nil)); err != nil {
				report("harness", "peer close write: "+err.Error())
				return false
			}
			select {
			case <-xctx.Wait():
			case <-time.After(stepTimeout):
				report("stuck:peerclose", fmt.Sprintf("step %d: the peer's close frame did not end the channel within %v", k, stepTimeout))
				p.Close()
				return true
			}
		case "drain":
			if err := p.WriteFrame(peer.Window(xid, 4096)); err != nil {
				report("harness", "window write: "+err.Error())
				return false
			}
		case "drop", "halfclose":
			dropped = true
			if tc, ok := p.C.(*net.TCPConn); ok && s.A == "halfclose" {
				tc.CloseWrite()
			} else {
				p.Close()
			}
			select {
			case <-conn.Closed().Wait():
			case <-time.After(stepTimeout):
				report("stuck:"+s.A, fmt.Sprintf("step %d: the connection did not close within %v after the peer's %s", k, stepTimeout, s.A))
				return true
			}
		}
		switch s.Phase {
		case "waiting":
			if poll(settle) {
				report("not-blocked", fmt.Sprintf("step %d (%s): Send returned %v although the window is used up", k, s.A, result.st))
				return true
			}
		case "returned":
			if !poll(stepTimeout) {
				report("hang:send", fmt.Sprintf("step %d (%s): the model says Send has returned, it is still blocked after %v", k, s.A, stepTimeout))
				p.Close()
				return true
			}
			if result.panic != "" {
				report("panic:send", fmt.Sprintf("step %d (%s): Send panicked: %s", k, s.A, result.panic))
				return true
			}
			got := "ok"
			if !result.st.OK() {
				got = "closed"
				switch result.st.Code {
				case status.CodeClosed, status.CodeCancelled, status.CodeEnd:
				default:
					got = string(result.st.Code)
				}
			}
			if got != s.Result {
				report("result:send:"+got, fmt.Sprintf("step %d (%s): Send returned %v, the model says %q", k, s.A, result.st, s.Result))
			}
		}
	}
	if !dropped {
		// the receive loop is alive: a frame for the sibling channel arrives
		if err := p.WriteFrame(peer.Data(sid, []byte("pong"))); err != nil {
			report("harness", "sibling write: "+err.Error())
			return false
		}
		b, st := sib.Receive(async.TimeoutContext(stepTimeout))
		if !st.OK() || string(b) != "pong" {
			report("sibling", fmt.Sprintf("after the schedule a frame for another channel of the connection was not delivered: %q %v", b, st))
		}
		// frames of X on the wire
		time.Sleep(settle)
		pmu.Lock()
		n := 0
		for _, f := range frames {
			if f.ID == xid && f.Code == pmpx.Code_ChannelData && bytes.Equal(f.Data, payload) {
				n++
			}
		}
		pmu.Unlock()
		if n != rec.Enq {
			report("frames:x", fmt.Sprintf("Send put %d frames of X on the wire, the model says %d", n, rec.Enq))
		}
	}
	for _, e := range mpxh.Panics(lg.Take()) {
		report("panic:library", e)
	}
	return true
}

func main() {
	in := flag.String("in", "", "TLC output with schedules")
	flag.Parse()
	enc := json.NewEncoder(os.Stdout)
	nMis, n, nConcl, steps := 0, 0, 0, 0
	bySig := map[string]int{}
	err := tlcio.Lines(*in, func(i int, raw []byte) error {
		if nMis >= 12 {
			return nil
		}
		var rec Rec
		if err := json.Unmarshal(raw, &rec); err != nil {
			return err
		}
		run := runSchedule
		if rec.Cause == "window" {
			run = runWindowSchedule
		}
		if run(i, &rec, func(sig, detail string) {
			nMis++
			bySig[sig]++
			if bySig[sig] <= 3 {
				enc.Encode(Outcome{Case: i, Sig: sig, Detail: detail, Sched: schedString(&rec)})
			}
		}) {
			nConcl++
		}
		n++
		steps += len(rec.Sched)
		return nil
	})
	if err != nil {
		fmt.Fprintln(os.Stderr, "harness error:", err)
		os.Exit(2)
	}
	enc.Encode(map[string]any{"summary": map[string]any{"schedules": n, "conclusive": nConcl, "steps": steps, "mismatches": nMis, "by_sig": bySig}})
}
