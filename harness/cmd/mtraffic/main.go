// mtraffic records API-level traces of real mpx client/server traffic for validation against MpxChanTrace.tla
// (C03 delivery, C06 other channels unaffected, C09 transport failures with -cut).
//
// Every Send/SendAndClose is bracketed by "sb"/"se" events, every Receive result is an "rv" (message id) or
// "re" (end) event; a global recorder orders events under one mutex (sb before the call, everything else
// after the call returned), channels are renamed to small integers per run.  Payloads carry (channel, direction,
// sequence) and a deterministic filler; the receiver checks every byte before logging the message id.
package main

import (
	"bytes"
	"encoding/json"
	"flag"
	"fmt"
	"io"
	"math/rand"
	"net"
	"os"
	"runtime"
	"strings"
	"sync"
	"sync/atomic"
	"time"

	"github.com/basecomplextech/baselibrary/async"
	"github.com/basecomplextech/baselibrary/status"
	"github.com/basecomplextech/baselibrary/units"
	"github.com/basecomplextech/spec/mpx"

	"verifharness/internal/mpxh"
	"verifharness/internal/poolrec"
	"verifharness/internal/tscale"
)

type Event struct {
	E     string `json:"e"`
	C     int    `json:"c,omitempty"`
	D     string `json:"d,omitempty"`
	M     int    `json:"m"`
	Close bool   `json:"close"`
	OK    bool   `json:"ok"`
}

type recorder struct {
	mu     sync.Mutex
	w      io.Writer
	enc    *json.Encoder
	n      int
	closed bool // a run is over: late events of abandoned goroutines are dropped
	evs    []Event
}

func (r *recorder) log(e Event) {
	r.mu.Lock()
	if !r.closed {
		r.enc.Encode(e)
		r.n++
		r.evs = append(r.evs, e)
	}
	r.mu.Unlock()
}

func (r *recorder) close() {
	r.mu.Lock()
	r.closed = true
	r.mu.Unlock()
}

type Finding struct {
	Run    int    `json:"run"`
	Sig    string `json:"sig"`
	Detail string `json:"detail"`
	Config string `json:"config"`
}

const hdr = 8

// payload: [chan hi, chan lo, dir, seq(3 bytes), 0xA5, size class] + filler
func payload(run, c int, d byte, seq, size int) []byte {
	if size < hdr {
		size = hdr
	}
	b := make([]byte, size)
	b[0], b[1], b[2] = byte(c>>8), byte(c), d
	b[3], b[4], b[5] = byte(seq>>16), byte(seq>>8), byte(seq)
	b[6] = 0xA5
	b[7] = byte(run)
	for i := hdr; i < size; i++ {
		b[i] = byte(1 + (c*131+seq*31+i*7+int(d))%251)
	}
	return b
}

// check returns (channel, seq) if the payload is intact, else (-1, -1)
func check(run int, b []byte) (int, byte, int) {
	if len(b) < hdr || b[6] != 0xA5 {
		return -1, 0, -1
	}
	c := int(b[0])<<8 | int(b[1])
	d := b[2]
	seq := int(b[3])<<16 | int(b[4])<<8 | int(b[5])
	if !bytes.Equal(b, payload(run, c, d, seq, len(b))) {
		return -1, 0, -1
	}
	return c, d, seq
}

type config struct {
	Chans    int
	Conns    int
	Msgs     int
	Window   int
	WriteQ   int
	Buf      int
	Compress bool
	Sizes    []int
	EarlyEnd int // every n-th channel: the receiver ends early (0 = never)
	Senders  int // concurrent sender goroutines per channel and direction
	Lag      bool // the receiving side starts to receive only after the peer's senders returned (or 1.5 s): a backlog builds up
	Seed     int64
}

func (c config) String() string {
	return fmt.Sprintf("chans=%d conns=%d msgs=%d window=%d writeq=%d buf=%d lz4=%v sizes=%v early=%d senders=%d seed=%d",
		c.Chans, c.Conns, c.Msgs, c.Window, c.WriteQ, c.Buf, c.Compress, c.Sizes, c.EarlyEnd, c.Senders, c.Seed)
}

func randomConfig(rng *rand.Rand, quick bool) config {
	windows := []int{16, 17, 64, 4096, 1 << 20}
	bufs := []int{16, 4096, 32768}
	w := windows[rng.Intn(len(windows))]
	c := config{
		Chans:    1 + rng.Intn(6),
		Conns:    1 + rng.Intn(2),
		Msgs:     2 + rng.Intn(10),
		Window:   w,
		WriteQ:   []int{4096, 65536, 1 << 20}[rng.Intn(3)],
		Buf:      bufs[rng.Intn(len(bufs))],
		Compress: rng.Intn(2) == 0,
		EarlyEnd: []int{0, 0, 3, 2}[rng.Intn(4)],
		Senders:  1 + rng.Intn(2),
		Seed:     rng.Int63(),
	}
	base := []int{hdr, hdr + 1, 64, w / 2, w/2 + 1, w, w + 1, 3 * w}
	for _, s := range base {
		if s >= hdr && s <= 300000 {
			c.Sizes = append(c.Sizes, s)
		}
	}
	if len(c.Sizes) == 0 {
		c.Sizes = []int{hdr}
	}
	return c
}

var opTimeout = tscale.D(10 * time.Second)

// curStall: byte offset at which the network of the current run stalls (-1: it does not)
var curStall int64 = -1

// segment size of the fragmenting proxy of the current run (0: none)
var curFrag int

// rough: channels that end early are ended while their own side is still sending (Free / handler return concurrent with
// Send).  What such a Send returns is the caller's race; the run is used for its findings only (panics, crashes, hangs of
// OTHER channels), its trace is not validated.
var rough = flag.Bool("rough", false, "early ends do not wait for the ending side's own senders (findings only, trace not validated)")

type side struct {
	run   int
	rec   *recorder
	cfg   config
	who   string // "c" or "s"
	found func(sig, detail string)
}

func dirOf(sender string) (string, byte) {
	if sender == "c" {
		return "c2s", 1
	}
	return "s2c", 2
}

// sendAll sends n messages (split over cfg.Senders goroutines) and then closes if asked.
func (s *side) sendAll(ch mpx.Channel, c int, n int, closeWithPayload, doClose bool, rng *rand.Rand) {
	dname, dbyte := dirOf(s.who)
	var seq atomic.Int32
	var wg sync.WaitGroup
	sizes := make([]int, n+1)
	for i := range sizes {
		sizes[i] = s.cfg.Sizes[rng.Intn(len(s.cfg.Sizes))]
	}
	for g := 0; g < s.cfg.Senders; g++ {
		wg.Add(1)
		go func() {
			defer wg.Done()
			defer func() {
				// rough mode: a Send that starts after another goroutine freed the channel is this harness's own race
				if e := recover(); e != nil {
					if *rough && strings.Contains(fmt.Sprint(e), "freed channel") {
						return
					}
					s.found("panic:user", fmt.Sprintf("sender goroutine of channel %d panicked: %v", c, e))
				}
			}()
			for {
				k := int(seq.Add(1))
				if k > n {
					return
				}
				ctx := async.TimeoutContext(opTimeout)
				s.rec.log(Event{E: "sb", C: c, D: dname, M: k})
				wd := watchdog()
				st := ch.Send(ctx, payload(s.run, c, dbyte, k, sizes[k-1]))
				wd.Stop()
				s.rec.log(Event{E: "se", C: c, D: dname, M: k, OK: st.OK()})
				if st.Code == status.CodeTimeout {
					s.found("hang:send", fmt.Sprintf("Send on channel %d did not return within %v", c, opTimeout))
				}
				if !st.OK() {
					return
				}
			}
		}()
	}
	wg.Wait()
	if !doClose {
		return
	}
	ctx := async.TimeoutContext(opTimeout)
	if closeWithPayload {
		k := n + 1
		s.rec.log(Event{E: "sb", C: c, D: dname, M: k, Close: true})
		st := ch.SendAndClose(ctx, payload(s.run, c, dbyte, k, sizes[n]))
		s.rec.log(Event{E: "se", C: c, D: dname, M: k, OK: st.OK()})
	} else {
		s.rec.log(Event{E: "sb", C: c, D: dname, M: 0, Close: true})
		st := ch.SendAndClose(ctx, nil)
		s.rec.log(Event{E: "se", C: c, D: dname, M: 0, OK: st.OK()})
	}
}

// recvAll receives until the end (or stops after `limit` messages when limit > 0).
func (s *side) recvAll(ch mpx.Channel, c int, first []byte, limit int, lag <-chan struct{}) {
	dname, dbyte := dirOf(map[string]string{"c": "s", "s": "c"}[s.who]) // direction we receive
	got := 0
	if s.cfg.Lag && lag != nil {
		select {
		case <-lag:
		case <-time.After(tscale.D(1500 * time.Millisecond)):
		}
	}
	handle := func(b []byte) {
		cc, dd, seq := check(s.run, b)
		if cc != c || dd != dbyte {
			s.found("corrupt", fmt.Sprintf("channel %d received a payload of %d bytes that is not an intact message of this channel/direction (decoded channel %d dir %d seq %d)", c, len(b), cc, dd, seq))
			seq = -1
		}
		s.rec.log(Event{E: "rv", C: c, D: dname, M: seq})
		got++
	}
	if first != nil {
		handle(first)
	}
	for limit == 0 || got < limit {
		ctx := async.TimeoutContext(opTimeout)
		b, st := ch.Receive(ctx)
		if st.OK() {
			handle(b)
			continue
		}
		if st.Code == status.CodeTimeout {
			s.found("hang:receive", fmt.Sprintf("Receive on channel %d did not return within %v", c, opTimeout))
		}
		s.rec.log(Event{E: "re", C: c, D: dname})
		return
	}
}

type cutConn struct {
	net.Conn
}

func runOnce(run int, cfg config, rec *recorder, cutAfter int64, found func(sig, detail string)) {
	rng := rand.New(rand.NewSource(cfg.Seed))
	opts := mpx.Default()
	opts.Compression = cfg.Compress
	opts.ChannelWindowSize = units.Bytes(cfg.Window)
	opts.WriteQueueSize = units.Bytes(cfg.WriteQ)
	opts.ReadBufferSize = units.Bytes(cfg.Buf)
	opts.WriteBufferSize = units.Bytes(cfg.Buf)
	opts.ClientMaxConns = cfg.Conns

	// per channel plan
	type plan struct {
		clientCloses bool // the client ends the channel (SendAndClose), the server drains; otherwise the server ends it
		withPayload  bool
		early        bool // the draining side stops early and frees the channel
		nC, nS       int
	}
	plans := make([]plan, cfg.Chans+1)
	for c := 1; c <= cfg.Chans; c++ {
		plans[c] = plan{clientCloses: rng.Intn(2) == 0, withPayload: rng.Intn(2) == 0,
			early: cfg.EarlyEnd > 0 && c%cfg.EarlyEnd == 0, nC: 1 + rng.Intn(cfg.Msgs), nS: rng.Intn(cfg.Msgs + 1)}
		if plans[c].clientCloses && plans[c].withPayload && rng.Intn(3) == 0 {
			// one-shot channel: SendAndClose with a payload is the very first operation (open and close in one batch)
			plans[c].nC = 0
		}
	}
	var hwg sync.WaitGroup
	var started, opened atomic.Int32
	sentC, sentS := make([]chan struct{}, cfg.Chans+1), make([]chan struct{}, cfg.Chans+1)
	for c := range sentC {
		sentC[c], sentS[c] = make(chan struct{}), make(chan struct{})
	}
	srvSide := &side{run: run, rec: rec, cfg: cfg, who: "s", found: found}
	handler := func(ctx mpx.Context, ch mpx.Channel) status.Status {
		hwg.Add(1)
		started.Add(1)
		defer hwg.Done()
		first, st := ch.Receive(async.TimeoutContext(opTimeout))
		if !st.OK() {
			return st
		}
		c, _, _ := check(run, first)
		if c == cfg.Chans+1 {
			// recovery probe after a fault: echo and end
			return ch.SendAndClose(async.TimeoutContext(opTimeout), first)
		}
		if c < 1 || c > cfg.Chans {
			found("corrupt", "server received an opening message that is not intact")
			return status.OK
		}
		p := plans[c]
		lrng := rand.New(rand.NewSource(cfg.Seed + int64(c)*7919))
		var wg sync.WaitGroup
		wg.Add(1)
		go func() {
			defer wg.Done()
			// the server ends the channel if the client does not
			defer close(sentS[c])
			srvSide.sendAll(ch, c, p.nS, p.withPayload, !p.clientCloses, lrng)
		}()
		limit := 0
		if p.early && p.clientCloses {
			limit = 1
		}
		srvSide.recvAll(ch, c, first, limit, sentC[c])
		wg.Wait()
		if limit > 0 || p.clientCloses {
			// returning frees the channel: a close without payload from the server side
			srvSide.rec.log(Event{E: "sb", C: c, D: "s2c", M: 0, Close: true})
		}
		if *rough && c%2 == 1 {
			// a handler that ends its channel itself before it returns: the library's own Free afterwards finds it freed
			// (it recovers and logs "free called multiple times"); nothing else may happen
			ch.Free()
		}
		return status.OK
	}
	srv, err := mpxh.StartServer(mpx.HandleFunc(handler), opts)
	if err != nil {
		found("harness", err.Error())
		return
	}
	defer srv.Stop()
	addr := srv.Addr
	var proxy *cutProxy
	if cutAfter >= 0 {
		proxy, err = newCutProxy(srv.Addr, cutAfter, rng.Intn(2) == 0)
		if err != nil {
			found("harness", err.Error())
			return
		}
		defer proxy.close()
		addr = proxy.addr()
		proxy.onCut = func() { rec.log(Event{E: "fail"}) }
	}
	if cutAfter < 0 && curStall < 0 && curFrag > 0 {
		// no fault: the byte stream arrives in segments of a few bytes
		fp, err := newCutProxy(srv.Addr, 1<<60, true)
		if err != nil {
			found("harness", err.Error())
			return
		}
		fp.frag = curFrag
		defer fp.close()
		addr = fp.addr()
	}
	if cutAfter < 0 && curStall >= 0 {
		// no fault, but the network stalls once for a while after curStall bytes in one direction
		sp, err := newCutProxy(srv.Addr, curStall, rng.Intn(2) == 0)
		if err != nil {
			found("harness", err.Error())
			return
		}
		sp.stall = 250 * time.Millisecond
		defer sp.close()
		addr = sp.addr()
	}
	lg := mpxh.NewCapLogger()
	mode := mpx.ClientMode_OnDemand
	if cutAfter >= 0 && run%2 == 0 {
		mode = mpx.ClientMode_AutoConnect
	}
	client := mpx.NewClient(addr, mode, lg, opts)
	defer client.Close()
	cliSide := &side{run: run, rec: rec, cfg: cfg, who: "c", found: found}
	var wg sync.WaitGroup
	for c := 1; c <= cfg.Chans; c++ {
		c := c
		p := plans[c]
		wg.Add(1)
		go func() {
			defer wg.Done()
			defer func() {
				if e := recover(); e != nil {
					found("panic:user", fmt.Sprintf("client goroutine of channel %d panicked: %v", c, e))
				}
			}()
			ch, st := client.Channel(async.TimeoutContext(opTimeout))
			if !st.OK() {
				if cutAfter < 0 {
					found("channel-open", fmt.Sprintf("Channel() failed without a fault: %v", st))
				}
				return
			}
			var freeOnce sync.Once
			defer freeOnce.Do(ch.Free)
			opened.Add(1)
			lrng := rand.New(rand.NewSource(cfg.Seed + int64(c)*104729))
			var w2 sync.WaitGroup
			w2.Add(1)
			go func() {
				defer w2.Done()
				defer func() {
					// rough mode: a Send that starts after the other goroutine freed the channel is this harness's own
					// race (the library answers with its use-after-free panic); everything else is reported
					if e := recover(); e != nil && !(*rough && strings.Contains(fmt.Sprint(e), "freed channel")) {
						found("panic:user", fmt.Sprintf("sender goroutine of channel %d panicked: %v", c, e))
					}
				}()
				defer close(sentC[c])
				cliSide.sendAll(ch, c, p.nC, p.withPayload, p.clientCloses, lrng)
			}()
			limit := 0
			if p.early && !p.clientCloses {
				limit = 1
			}
			cliSide.recvAll(ch, c, nil, limit, sentS[c])
			if *rough && limit > 0 {
				// end the channel while this side's own Sends may still be blocked on the window or the write queue
				freeOnce.Do(ch.Free)
			}
			w2.Wait()
			if !p.clientCloses {
				// Free ends the channel from the client side (close without payload)
				cliSide.rec.log(Event{E: "sb", C: c, D: "c2s", M: 0, Close: true})
			}
		}()
	}
	done := make(chan struct{})
	go func() {
		wg.Wait()
		// every opened channel reaches the server's handler (without a fault); with a fault wait for stragglers
		deadline := time.Now().Add(tscale.D(2 * time.Second))
		if cutAfter >= 0 {
			deadline = time.Now().Add(200 * time.Millisecond)
		}
		for started.Load() < opened.Load() && time.Now().Before(deadline) {
			time.Sleep(time.Millisecond)
		}
		if cutAfter < 0 && started.Load() < opened.Load() {
			found("handler-missing", fmt.Sprintf("%d channels were opened and used, the server handler started %d times", opened.Load(), started.Load()))
		}
		hwg.Wait()
		close(done)
	}()
	select {
	case <-done:
	case <-time.After(3 * opTimeout):
		found("hang:run", "client goroutines or server handlers did not finish: "+cfg.String())
	}
	if proxy != nil {
		// C09: after the fault the transport works again; an on-demand client must succeed on its next call,
		// an auto-connect client must get connected again by itself
		proxy.disarm()
		rec.close()
		if mode == mpx.ClientMode_AutoConnect {
			select {
			case <-client.Connected().Wait():
			case <-time.After(tscale.D(5 * time.Second)):
				found("no-reconnect", fmt.Sprintf("auto-connect client did not reconnect within %v after the fault", tscale.D(5*time.Second)))
			}
		}
		func() {
			defer func() {
				if e := recover(); e != nil {
					found("panic:user", fmt.Sprintf("recovery probe panicked: %v", e))
				}
			}()
			var last status.Status
			ok := false
			for try := 0; try < 3 && !ok; try++ {
				ctx := async.TimeoutContext(tscale.D(5 * time.Second))
				ch, st := client.Channel(ctx)
				if !st.OK() {
					last = st
					continue
				}
				msg := payload(run, cfg.Chans+1, 1, try+1, 32)
				st = ch.Send(ctx, msg)
				var b []byte
				if st.OK() {
					b, st = ch.Receive(ctx)
				}
				same := bytes.Equal(b, msg) // before Free: the received bytes are a view into the channel's queue
				ch.Free()
				if st.OK() && same {
					ok = true
				} else {
					last = st
				}
			}
			if !ok {
				found("no-recovery", fmt.Sprintf("after the fault the client (mode %d) could not complete an echo in 3 tries: %v", mode, last))
			}
		}()
	}
	for _, e := range mpxh.Panics(append(lg.Take(), srv.Logger.Take()...)) {
		if *rough && strings.Contains(e, "free called multiple times") {
			continue // the handler freed its channel itself (see above): recovered and logged by design
		}
		found("panic:library", e)
	}
}

func main() {
	out := flag.String("out", "trace.ndjson", "trace output (ndjson)")
	runs := flag.Int("runs", 20, "number of runs")
	seed := flag.Int64("seed", 1, "seed")
	cut := flag.Bool("cut", false, "C09: cut the connection after a byte count chosen per run")
	cutStep := flag.Int("cutstep", 7, "C09: offsets k = first, first+step, ...")
	pooltrace := flag.String("pooltrace", "", "C18: record the pool events of the run into this file")
	lag := flag.Bool("lag", false, "lagging receivers: large windows and messages, the receiving side waits until the peer has sent everything")
	frag := flag.Bool("frag", false, "the byte stream reaches both sides in segments of 1-7 bytes; compression off in two runs of three")
	stall := flag.Bool("stall", false, "the network stalls once per run for 250 ms after a byte count chosen per run (no fault)")
	flag.Parse()
	if *pooltrace != "" {
		poolrec.Start(60000)
		defer func() {
			if _, _, err := poolrec.Dump(*pooltrace); err != nil {
				fmt.Fprintln(os.Stderr, "harness error:", err)
				os.Exit(2)
			}
		}()
	}
	f, err := os.Create(*out)
	if err != nil {
		fmt.Fprintln(os.Stderr, "harness error:", err)
		os.Exit(2)
	}
	defer f.Close()
	rec := &recorder{w: f, enc: json.NewEncoder(f)}
	rng := rand.New(rand.NewSource(*seed))
	enc := json.NewEncoder(os.Stdout)
	nFind := 0
	bySig := map[string]int{}
	var fmu sync.Mutex
	var cfgs []string
	dumped := false
	ran := 0
	for r := 1; r <= *runs; r++ {
		fmu.Lock()
		enough := nFind >= 8
		fmu.Unlock()
		if enough {
			break // a tree that fails keeps failing, and every hang costs a time limit
		}
		ran = r
		cfg := randomConfig(rng, true)
		cutAfter := int64(-1)
		curStall = -1
		curFrag = 0
		if *frag {
			curFrag = 1 + (r+int(*seed))%7
			cfg.Compress = r%3 == 0
			if cfg.Window > 1<<16 {
				cfg.Window = 1 << 16
			}
		}
		if *stall {
			// small write queue and window, so that queues fill up during the stall
			cfg.Conns = 1
			cfg.WriteQ = 4096
			curStall = int64(64 + (r-1)*(*cutStep)*8 + rng.Intn(*cutStep*8))
		}
		if *lag {
			// backlogs of tens of MiB on one channel, admitted by the window without the receiver reading
			cfg.Lag = true
			cfg.Chans, cfg.Conns, cfg.Senders, cfg.EarlyEnd = 1+rng.Intn(2), 1, 1, 0
			cfg.WriteQ, cfg.Buf = 1<<20, 32768
			switch r % 3 {
			case 0:
				cfg.Window, cfg.Sizes, cfg.Msgs = 64<<20, []int{1 << 20, 2 << 20}, 24
			case 1:
				cfg.Window, cfg.Sizes, cfg.Msgs = 16<<20, []int{3 << 20, 5 << 20}, 3
			case 2:
				cfg.Window, cfg.Sizes, cfg.Msgs = 1<<20, []int{hdr, hdr + 3}, 4000
			}
		}
		if *cut {
			cfg.Chans = 1 + rng.Intn(3)
			cfg.Conns = 1
			cfg.Msgs = 2 + rng.Intn(4)
			cutAfter = int64((r-1)*(*cutStep)) + int64(rng.Intn(*cutStep))
		}
		found := func(sig, detail string) {
			fmu.Lock()
			defer fmu.Unlock()
			nFind++
			bySig[sig]++
			if bySig[sig] <= 3 {
				enc.Encode(Finding{Run: r, Sig: sig, Detail: detail, Config: cfg.String()})
			}
			if strings.HasPrefix(sig, "hang:") && os.Getenv("VERIF_DUMP_HANG") != "" && bySig[sig] == 1 {
				buf := make([]byte, 1<<20)
				n := runtime.Stack(buf, true)
				os.WriteFile(os.Getenv("VERIF_DUMP_HANG"), buf[:n], 0o644)
			}
		}
		rrec := &recorder{w: f, enc: rec.enc}
		runOnce(r, cfg, rrec, cutAfter, found)
		rrec.close()
		if p := os.Getenv("VERIF_DUMP_HANG"); p != "" && (bySig["hang:send"] > 0 || bySig["hang:receive"] > 0) && !dumped {
			dumped = true
			b, _ := json.Marshal(map[string]any{"config": cfg.String(), "events": rrec.evs})
			os.WriteFile(p+".events", b, 0o644)
		}
		rec.n += rrec.n
		rec.log(Event{E: "reset"})
		if len(cfgs) < 3 {
			cfgs = append(cfgs, cfg.String())
		}
	}
	enc.Encode(map[string]any{"summary": map[string]any{"runs": ran, "events": rec.n, "findings": nFind, "by_sig": bySig, "configs": cfgs}})
}
