package main

import (
	"net"
	"os"
	"runtime"
	"time"
	"sync"
	"sync/atomic"
)

// cutProxy forwards one TCP connection at a time to target and cuts it after `after` bytes in one direction.
type cutProxy struct {
	ln      net.Listener
	target  string
	after   int64
	c2s     bool // count client->server bytes (else server->client)
	count   atomic.Int64
	onCut   func()
	stall   time.Duration // when > 0 the proxy does not cut at the offset: it stops forwarding that direction for this long, once
	stalled atomic.Bool
	frag    int // when > 0 every forwarded chunk is written in segments of this many bytes (frame headers straddle reads)
	cutOnce sync.Once
	mu      sync.Mutex
	conns   []net.Conn
}

func newCutProxy(target string, after int64, c2s bool) (*cutProxy, error) {
	ln, err := net.Listen("tcp", "127.0.0.1:0")
	if err != nil {
		return nil, err
	}
	p := &cutProxy{ln: ln, target: target, after: after, c2s: c2s}
	go p.serve()
	return p, nil
}

// disarm: connections accepted from now on are forwarded without a fault
func (p *cutProxy) disarm() { p.after = 1 << 60 }

func (p *cutProxy) addr() string { return p.ln.Addr().String() }

func (p *cutProxy) close() {
	p.ln.Close()
	p.mu.Lock()
	for _, c := range p.conns {
		c.Close()
	}
	p.mu.Unlock()
}

func (p *cutProxy) serve() {
	for {
		c, err := p.ln.Accept()
		if err != nil {
			return
		}
		s, err := net.Dial("tcp", p.target)
		if err != nil {
			c.Close()
			continue
		}
		p.mu.Lock()
		p.conns = append(p.conns, c, s)
		p.mu.Unlock()
		go p.pipe(c, s, p.c2s)
		go p.pipe(s, c, !p.c2s)
	}
}

func (p *cutProxy) cut(a, b net.Conn) {
	p.cutOnce.Do(func() {
		if p.onCut != nil {
			p.onCut()
		}
	})
	a.Close()
	b.Close()
}

func (p *cutProxy) pipe(from, to net.Conn, counted bool) {
	buf := make([]byte, 4096)
	for {
		n, err := from.Read(buf)
		if n > 0 {
			chunk := buf[:n]
			if counted {
				left := p.after - p.count.Load()
				if left <= int64(n) && p.stall > 0 {
					// a stalled network: the bytes arrive, late (write queues fill up, senders and Free block meanwhile)
					if left > 0 {
						to.Write(chunk[:left])
						chunk = chunk[left:]
					}
					p.count.Add(int64(n))
					if p.stalled.CompareAndSwap(false, true) {
						time.Sleep(p.stall)
					}
					p.after = 1 << 60
					if len(chunk) > 0 {
						if _, werr := to.Write(chunk); werr != nil {
							p.cut(from, to)
							return
						}
					}
					continue
				}
				if left <= int64(n) {
					if left > 0 {
						to.Write(chunk[:left])
						p.count.Add(left)
					}
					p.cut(from, to)
					return
				}
				p.count.Add(int64(n))
			}
			if p.frag > 0 {
				for k := 0; len(chunk) > 0; k++ {
					m := p.frag
					if m > len(chunk) {
						m = len(chunk)
					}
					if _, werr := to.Write(chunk[:m]); werr != nil {
						p.cut(from, to)
						return
					}
					chunk = chunk[m:]
					if k%32 == 31 {
						runtime.Gosched()
					}
				}
				chunk = nil
			}
			if _, werr := to.Write(chunk); len(chunk) > 0 && werr != nil {
				p.cut(from, to)
				return
			}
		}
		if err != nil {
			p.cut(from, to)
			return
		}
	}
}

// watchdog dumps all goroutine stacks once if an operation is still blocked after 5 s (debugging aid, env VERIF_DUMP_HANG).
func watchdog() *time.Timer {
	path := os.Getenv("VERIF_DUMP_HANG")
	if path == "" {
		return time.NewTimer(time.Hour)
	}
	return time.AfterFunc(5*time.Second, func() {
		buf := make([]byte, 1<<20)
		n := runtime.Stack(buf, true)
		os.WriteFile(path+".blocked", buf[:n], 0o644)
	})
}
