// mwinwake replays the schedules of MpxWinWake.tla: a Send that waits for send window is held at the verif gate between
// its load of the window and its sleep (send.wait) while a raw peer sends window updates and, in half of the schedules, a
// second goroutine calls Send on the same channel; the controller releases senders and updates in the model's order.
// Conformance: after every step each sender is where the model says (queued behind the other, at the gate with the
// model's window, asleep, or returned); verdict: a sender never stays asleep on a window that is enough, and never two
// senders are inside the wait at once.
package main

import (
	"bytes"
	"encoding/json"
	"flag"
	"fmt"
	"net"
	"os"
	"runtime"
	"strconv"
	"strings"
	"sync"
	"time"

	"github.com/basecomplextech/baselibrary/async"
	"github.com/basecomplextech/baselibrary/bin"
	"github.com/basecomplextech/baselibrary/status"
	"github.com/basecomplextech/baselibrary/units"
	"github.com/basecomplextech/spec/mpx"
	"github.com/basecomplextech/spec/proto/pmpx"

	"verifharness/internal/mpxh"
	"verifharness/internal/peer"
	"verifharness/internal/tlcio"
	"verifharness/internal/tscale"
)

type Step struct {
	Who    int    `json:"who"` // 1, 2: sender; 0: the peer
	Op     string `json:"op"`
	Snd1   string `json:"snd1"`
	Snd2   string `json:"snd2"`
	Window int    `json:"window"`
}

type Rec struct {
	W      int    `json:"w"`
	Size   int    `json:"size"`
	Deltas []int  `json:"deltas"`
	Two    bool   `json:"two"`
	Sched  []Step `json:"sched"`
	Final1 string `json:"final1"`
	Final2 string `json:"final2"`
}

type Outcome struct {
	Case   int    `json:"case"`
	Sig    string `json:"sig"`
	Detail string `json:"detail"`
	Sched  string `json:"sched"`
}

var (
	stepTimeout = tscale.D(3 * time.Second)
	settle      = tscale.D(30 * time.Millisecond)
)

func goid() int64 {
	var buf [64]byte
	n := runtime.Stack(buf[:], false)
	f := strings.Fields(string(buf[:n]))
	id, _ := strconv.ParseInt(f[1], 10, 64)
	return id
}

type gateArrival struct {
	g      int64
	window int64
	rel    chan struct{}
}

type ctl struct {
	mu     sync.Mutex
	active bool
	id     bin.Bin128
	gate   chan gateArrival
	recv   chan int64
}

func (c *ctl) trace(ev string, id bin.Bin128, a, b int64) {
	if ev != "send.wait" && ev != "win.recv" {
		return
	}
	c.mu.Lock()
	ok := c.active && id == c.id
	c.mu.Unlock()
	if !ok {
		return
	}
	if ev == "win.recv" {
		c.recv <- a
		return
	}
	rel := make(chan struct{})
	c.gate <- gateArrival{goid(), a, rel}
	<-rel
}

func schedString(r *Rec) string {
	s := fmt.Sprintf("W=%d size=%d deltas=%v:", r.W, r.Size, r.Deltas)
	for _, st := range r.Sched {
		who := "P"
		if st.Who > 0 {
			who = fmt.Sprint("S", st.Who)
		}
		s += fmt.Sprintf(" %s.%s->%s/%s", who, st.Op, st.Snd1, st.Snd2)
	}
	return s
}

func accept(ln net.Listener) (*peer.Peer, error) {
	c, err := ln.Accept()
	if err != nil {
		return nil, err
	}
	p := peer.Wrap(c)
	if _, err := p.ReadLine(stepTimeout); err != nil {
		return nil, err
	}
	if _, err := p.ReadFrame(stepTimeout); err != nil {
		return nil, err
	}
	if err := p.WriteRaw([]byte(peer.ProtocolLine)); err != nil {
		return nil, err
	}
	resp, err := pmpx.BuildConnectResponse(pmpx.Version_Version10, pmpx.ConnectCompression_None)
	if err != nil {
		return nil, err
	}
	return p, p.WriteFrame(resp.Unwrap().Raw())
}

type sender struct {
	g        int64
	started  chan int64
	resc     chan status.Status
	parked   *gateArrival
	returned bool
	payload  []byte
}

func runSchedule(rec *Rec, c *ctl, report func(sig, detail string)) {
	ln, err := net.Listen("tcp", "127.0.0.1:0")
	if err != nil {
		report("harness", err.Error())
		return
	}
	defer ln.Close()
	type acc struct {
		p   *peer.Peer
		err error
	}
	accc := make(chan acc, 1)
	go func() { p, err := accept(ln); accc <- acc{p, err} }()
	lg := mpxh.NewCapLogger()
	opts := mpx.Default()
	opts.Compression = false
	opts.ChannelWindowSize = units.Bytes(rec.W)
	conn, st := mpx.Connect(async.NoContext(), ln.Addr().String(), lg, opts)
	if !st.OK() {
		report("harness", "connect: "+st.String())
		return
	}
	a := <-accc
	if a.err != nil {
		report("harness", "accept: "+a.err.Error())
		conn.Close()
		return
	}
	p := a.p
	var pmu sync.Mutex
	var frames []peer.Frame
	go func() {
		for {
			f, err := p.ReadFrame(time.Hour)
			if err != nil {
				return
			}
			pmu.Lock()
			frames = append(frames, f.Flatten()...)
			pmu.Unlock()
		}
	}()
	x, st := conn.Channel(async.TimeoutContext(stepTimeout))
	if !st.OK() {
		report("harness", "channel: "+st.String())
		conn.Close()
		p.Close()
		return
	}
	defer func() {
		c.mu.Lock()
		c.active = false
		c.mu.Unlock()
		// let senders parked at the gate go, then end everything
		for {
			select {
			case g := <-c.gate:
				close(g.rel)
				continue
			case <-c.recv:
				continue
			default:
			}
			break
		}
		p.Close()
		conn.Close()
		done := make(chan struct{})
		go func() {
			defer close(done)
			defer func() { recover() }()
			x.Free()
		}()
		select {
		case <-done:
		case <-time.After(stepTimeout):
		}
	}()
	// the opening message uses the whole window up
	first := bytes.Repeat([]byte{7}, rec.W)
	if st := x.Send(async.TimeoutContext(stepTimeout), first); !st.OK() {
		report("harness", "opening send: "+st.String())
		return
	}
	var xid bin.Bin128
	found := false
	for deadline := time.Now().Add(stepTimeout); time.Now().Before(deadline) && !found; time.Sleep(time.Millisecond) {
		pmu.Lock()
		for _, f := range frames {
			if f.Code == pmpx.Code_ChannelOpen && bytes.Equal(f.Data, first) {
				xid, found = f.ID, true
			}
		}
		pmu.Unlock()
	}
	if !found {
		report("harness", "the peer did not see the open frame")
		return
	}
	c.mu.Lock()
	c.active, c.id = true, xid
	c.mu.Unlock()
	snd := [3]*sender{nil,
		{started: make(chan int64, 1), resc: make(chan status.Status, 1), payload: bytes.Repeat([]byte{9}, rec.Size)},
		{started: make(chan int64, 1), resc: make(chan status.Status, 1), payload: []byte{5}}}
	defer func() {
		for i := 1; i <= 2; i++ {
			if snd[i].parked != nil {
				close(snd[i].parked.rel)
				snd[i].parked = nil
			}
		}
	}()
	// pump takes one event of the senders (a gate arrival or a return) or times out
	pump := func(d time.Duration) bool {
		select {
		case g := <-c.gate:
			for i := 1; i <= 2; i++ {
				if snd[i].g == g.g {
					gg := g
					snd[i].parked = &gg
					return true
				}
			}
			close(g.rel) // not one of ours
			return true
		case st := <-snd[1].resc:
			snd[1].returned = true
			if !st.OK() {
				report("status:"+string(st.Code), fmt.Sprintf("Send of sender 1 returned %v", st))
			}
			return true
		case st := <-snd[2].resc:
			snd[2].returned = true
			if !st.OK() {
				report("status:"+string(st.Code), fmt.Sprintf("Send of sender 2 returned %v", st))
			}
			return true
		case <-time.After(d):
			return false
		}
	}
	for k, s := range rec.Sched {
		hadParked := [3]bool{false, snd[1].parked != nil, snd[2].parked != nil}
		switch {
		case s.Who > 0 && s.Op == "start":
			me := snd[s.Who]
			go func() {
				me.started <- goid()
				defer func() {
					if e := recover(); e != nil {
						me.resc <- status.Errorf("panic: %v", e)
					}
				}()
				me.resc <- x.Send(async.TimeoutContext(tscale.D(20*time.Second)), me.payload)
			}()
			me.g = <-me.started
		case s.Who > 0 && s.Op == "go":
			me := snd[s.Who]
			if me.parked == nil {
				report("harness", "release without a parked sender")
				return
			}
			close(me.parked.rel)
			me.parked = nil
			hadParked[s.Who] = false
		case s.Who == 0:
			n := 0
			for j := 0; j <= k; j++ {
				if rec.Sched[j].Who == 0 {
					n++
				}
			}
			if err := p.WriteFrame(peer.Window(xid, int32(rec.Deltas[n-1]))); err != nil {
				report("harness", "window write: "+err.Error())
				return
			}
			select {
			case <-c.recv:
			case <-time.After(stepTimeout):
				report("stuck:update", fmt.Sprintf("step %d: the window update was not applied within %v", k, stepTimeout))
				return
			}
		}
		want := [3]string{"", s.Snd1, s.Snd2}
		at := func(i int) string {
			switch {
			case snd[i].returned:
				return "done"
			case snd[i].parked != nil:
				return "gate"
			}
			return "inside-or-waiting"
		}
		where := fmt.Sprintf("step %d (%d.%s)", k, s.Who, s.Op)
		// first what has to happen ...
		deadline := time.Now().Add(stepTimeout)
		for {
			pending := false
			for i := 1; i <= 2; i++ {
				if (want[i] == "gate" && snd[i].parked == nil && !snd[i].returned) || (want[i] == "done" && !snd[i].returned && snd[i].parked == nil) {
					pending = true
				}
			}
			if !pending || !pump(time.Until(deadline)) {
				break
			}
		}
		for i := 1; i <= 2; i++ {
			switch want[i] {
			case "gate":
				if at(i) != "gate" {
					sig := "hang:no-gate"
					if at(i) == "done" {
						sig = "returned-early"
					}
					report(sig, fmt.Sprintf("%s: sender %d is %s, the model says it is at the gate (window %d)", where, i, at(i), s.Window))
					return
				}
				if !hadParked[i] && int(snd[i].parked.window) != s.Window {
					report("window", fmt.Sprintf("%s: sender %d loaded window %d, the model says %d", where, i, snd[i].parked.window, s.Window))
					return
				}
			case "done":
				if at(i) != "done" {
					sig := "hang:asleep"
					if at(i) == "gate" {
						sig = "not-done"
					}
					report(sig, fmt.Sprintf("%s: Send of sender %d has not returned within %v although the window updates applied so far are enough for it (initial window %d, size %d)", where, i, stepTimeout, rec.W, len(snd[i].payload)))
					return
				}
			}
		}
		// ... then what must not happen: a queued or sleeping sender stays where it is
		quiet := false
		for i := 1; i <= 2; i++ {
			quiet = quiet || want[i] == "queued" || want[i] == "asleep"
		}
		if quiet {
			for pump(settle) {
			}
			for i := 1; i <= 2; i++ {
				if (want[i] == "queued" || want[i] == "asleep") && at(i) != "inside-or-waiting" {
					what := "sleeps"
					if want[i] == "queued" {
						what = "waits for the send mutex behind the other sender"
					}
					report("not-"+want[i], fmt.Sprintf("%s: sender %d is %s, the model says it %s", where, i, at(i), what))
					return
				}
			}
		}
	}
	// the messages of the senders that are done are on the wire, once each
	for i := 1; i <= 2; i++ {
		if (i == 1 && rec.Final1 != "done") || (i == 2 && rec.Final2 != "done") {
			continue
		}
		ok := false
		for deadline := time.Now().Add(stepTimeout); time.Now().Before(deadline) && !ok; time.Sleep(time.Millisecond) {
			pmu.Lock()
			n := 0
			for _, f := range frames {
				if f.ID == xid && f.Code == pmpx.Code_ChannelData && bytes.Equal(f.Data, snd[i].payload) {
					n++
				}
			}
			pmu.Unlock()
			ok = n == 1
		}
		if !ok {
			report("frames", fmt.Sprintf("the peer did not receive the message of sender %d exactly once after its Send returned OK", i))
		}
	}
	for _, e := range mpxh.Panics(lg.Take()) {
		report("panic:library", e)
	}
}

func main() {
	in := flag.String("in", "", "TLC output with schedules")
	flag.Parse()
	c := &ctl{gate: make(chan gateArrival, 4), recv: make(chan int64, 16)}
	mpx.SetVerifTracer(c.trace)
	enc := json.NewEncoder(os.Stdout)
	nMis, n, steps := 0, 0, 0
	bySig := map[string]int{}
	err := tlcio.Lines(*in, func(i int, raw []byte) error {
		if nMis >= 6 {
			return nil
		}
		var rec Rec
		if err := json.Unmarshal(raw, &rec); err != nil {
			return err
		}
		runSchedule(&rec, c, func(sig, detail string) {
			nMis++
			bySig[sig]++
			if bySig[sig] <= 3 {
				enc.Encode(Outcome{Case: i, Sig: sig, Detail: detail, Sched: schedString(&rec)})
			}
		})
		n++
		steps += len(rec.Sched)
		return nil
	})
	if err != nil {
		fmt.Fprintln(os.Stderr, "harness error:", err)
		os.Exit(2)
	}
	enc.Encode(map[string]any{"summary": map[string]any{"schedules": n, "steps": steps, "mismatches": nMis, "by_sig": bySig}})
}
