// mwinwake replays the schedules of MpxWinWake.tla: a Send that waits for send window is held at the verif gate between
// its load of the window and its sleep (send.wait) while a raw peer sends window updates; the controller releases the
// sender and the updates in the model's order.  Conformance: after every step the sender is where the model says (at the
// gate with the model's window, asleep, or returned); verdict: a sender never stays asleep on a window that is enough.
package main

import (
	"bytes"
	"encoding/json"
	"flag"
	"fmt"
	"net"
	"os"
	"sync"
	"time"

	"github.com/basecomplextech/baselibrary/async"
	"github.com/basecomplextech/baselibrary/bin"
	"github.com/basecomplextech/baselibrary/status"
	"github.com/basecomplextech/baselibrary/units"
	"github.com/basecomplextech/spec/mpx"
	"github.com/basecomplextech/spec/proto/pmpx"

	"verifharness/internal/mpxh"
	"verifharness/internal/peer"
	"verifharness/internal/tlcio"
	"verifharness/internal/tscale"
)

type Step struct {
	Who    string `json:"who"`
	Op     string `json:"op"`
	Snd    string `json:"snd"`
	Window int    `json:"window"`
}

type Rec struct {
	W      int    `json:"w"`
	Size   int    `json:"size"`
	Deltas []int  `json:"deltas"`
	Sched  []Step `json:"sched"`
	Final  string `json:"final"`
}

type Outcome struct {
	Case   int    `json:"case"`
	Sig    string `json:"sig"`
	Detail string `json:"detail"`
	Sched  string `json:"sched"`
}

var (
	stepTimeout = tscale.D(3 * time.Second)
	settle      = tscale.D(30 * time.Millisecond)
)

type gateArrival struct {
	window int64
	rel    chan struct{}
}

type ctl struct {
	mu     sync.Mutex
	active bool
	id     bin.Bin128
	gate   chan gateArrival
	recv   chan int64
}

func (c *ctl) trace(ev string, id bin.Bin128, a, b int64) {
	if ev != "send.wait" && ev != "win.recv" {
		return
	}
	c.mu.Lock()
	ok := c.active && id == c.id
	c.mu.Unlock()
	if !ok {
		return
	}
	if ev == "win.recv" {
		c.recv <- a
		return
	}
	rel := make(chan struct{})
	c.gate <- gateArrival{a, rel}
	<-rel
}

func schedString(r *Rec) string {
	s := fmt.Sprintf("W=%d size=%d deltas=%v:", r.W, r.Size, r.Deltas)
	for _, st := range r.Sched {
		s += " " + st.Who + "." + st.Op + "->" + st.Snd
	}
	return s
}

func accept(ln net.Listener) (*peer.Peer, error) {
	c, err := ln.Accept()
	if err != nil {
		return nil, err
	}
	p := peer.Wrap(c)
	if _, err := p.ReadLine(stepTimeout); err != nil {
		return nil, err
	}
	if _, err := p.ReadFrame(stepTimeout); err != nil {
		return nil, err
	}
	if err := p.WriteRaw([]byte(peer.ProtocolLine)); err != nil {
		return nil, err
	}
	resp, err := pmpx.BuildConnectResponse(pmpx.Version_Version10, pmpx.ConnectCompression_None)
	if err != nil {
		return nil, err
	}
	return p, p.WriteFrame(resp.Unwrap().Raw())
}

func runSchedule(rec *Rec, c *ctl, report func(sig, detail string)) {
	ln, err := net.Listen("tcp", "127.0.0.1:0")
	if err != nil {
		report("harness", err.Error())
		return
	}
	defer ln.Close()
	type acc struct {
		p   *peer.Peer
		err error
	}
	accc := make(chan acc, 1)
	go func() { p, err := accept(ln); accc <- acc{p, err} }()
	lg := mpxh.NewCapLogger()
	opts := mpx.Default()
	opts.Compression = false
	opts.ChannelWindowSize = units.Bytes(rec.W)
	conn, st := mpx.Connect(async.NoContext(), ln.Addr().String(), lg, opts)
	if !st.OK() {
		report("harness", "connect: "+st.String())
		return
	}
	a := <-accc
	if a.err != nil {
		report("harness", "accept: "+a.err.Error())
		conn.Close()
		return
	}
	p := a.p
	var pmu sync.Mutex
	var frames []peer.Frame
	go func() {
		for {
			f, err := p.ReadFrame(time.Hour)
			if err != nil {
				return
			}
			pmu.Lock()
			frames = append(frames, f.Flatten()...)
			pmu.Unlock()
		}
	}()
	x, st := conn.Channel(async.TimeoutContext(stepTimeout))
	if !st.OK() {
		report("harness", "channel: "+st.String())
		conn.Close()
		p.Close()
		return
	}
	defer func() {
		c.mu.Lock()
		c.active = false
		c.mu.Unlock()
		// let a sender parked at the gate go, then end everything
		for {
			select {
			case g := <-c.gate:
				close(g.rel)
				continue
			case <-c.recv:
				continue
			default:
			}
			break
		}
		p.Close()
		conn.Close()
		done := make(chan struct{})
		go func() {
			defer close(done)
			defer func() { recover() }()
			x.Free()
		}()
		select {
		case <-done:
		case <-time.After(stepTimeout):
		}
	}()
	// the opening message uses the whole window up
	first := bytes.Repeat([]byte{7}, rec.W)
	if st := x.Send(async.TimeoutContext(stepTimeout), first); !st.OK() {
		report("harness", "opening send: "+st.String())
		return
	}
	var xid bin.Bin128
	found := false
	for deadline := time.Now().Add(stepTimeout); time.Now().Before(deadline) && !found; time.Sleep(time.Millisecond) {
		pmu.Lock()
		for _, f := range frames {
			if f.Code == pmpx.Code_ChannelOpen && bytes.Equal(f.Data, first) {
				xid, found = f.ID, true
			}
		}
		pmu.Unlock()
	}
	if !found {
		report("harness", "the peer did not see the open frame")
		return
	}
	c.mu.Lock()
	c.active, c.id = true, xid
	c.mu.Unlock()
	payload := bytes.Repeat([]byte{9}, rec.Size)
	resc := make(chan status.Status, 1)
	var parked *gateArrival
	returned := false
	// waitSnd brings the observation of the sender up to date and compares it with the model
	expect := func(k int, s Step) bool {
		switch s.Snd {
		case "idle":
			return true
		case "gate":
			if parked == nil {
				select {
				case g := <-c.gate:
					parked = &g
				case st := <-resc:
					returned = true
					report("returned-early", fmt.Sprintf("step %d (%s.%s): Send returned %v, the model says it waits at the gate (window %d, size %d)", k, s.Who, s.Op, st, s.Window, rec.Size))
					return false
				case <-time.After(stepTimeout):
					report("hang:no-gate", fmt.Sprintf("step %d (%s.%s): the sender neither reached the gate nor returned within %v; the model says it loaded window %d again", k, s.Who, s.Op, stepTimeout, s.Window))
					return false
				}
				// the window it loaded on this arrival (an update applied later does not change what it saw)
				if int(parked.window) != s.Window {
					report("window", fmt.Sprintf("step %d (%s.%s): the sender loaded window %d, the model says %d", k, s.Who, s.Op, parked.window, s.Window))
					return false
				}
			}
		case "asleep":
			select {
			case g := <-c.gate:
				parked = &g
				report("not-asleep", fmt.Sprintf("step %d (%s.%s): the sender is back at the gate (window %d), the model says it sleeps", k, s.Who, s.Op, g.window))
				return false
			case st := <-resc:
				returned = true
				report("returned-early", fmt.Sprintf("step %d (%s.%s): Send returned %v, the model says it sleeps", k, s.Who, s.Op, st))
				return false
			case <-time.After(settle):
			}
		case "done":
			if returned {
				return true
			}
			select {
			case st := <-resc:
				returned = true
				if !st.OK() {
					report("status:"+string(st.Code), fmt.Sprintf("step %d (%s.%s): Send returned %v", k, s.Who, s.Op, st))
					return false
				}
			case g := <-c.gate:
				parked = &g
				report("not-done", fmt.Sprintf("step %d (%s.%s): the sender went back to the gate with window %d, the model says the window is enough", k, s.Who, s.Op, g.window))
				return false
			case <-time.After(stepTimeout):
				report("hang:asleep", fmt.Sprintf("step %d (%s.%s): Send did not return within %v although the window updates applied so far are enough for it (initial window %d, size %d): lost wake-up", k, s.Who, s.Op, stepTimeout, rec.W, rec.Size))
				return false
			}
		}
		return true
	}
	for k, s := range rec.Sched {
		switch {
		case s.Who == "S" && s.Op == "start":
			go func() {
				defer func() {
					if e := recover(); e != nil {
						resc <- status.Errorf("panic: %v", e)
					}
				}()
				resc <- x.Send(async.TimeoutContext(tscale.D(20*time.Second)), payload)
			}()
		case s.Who == "S" && s.Op == "go":
			if parked == nil {
				report("harness", "release without a parked sender")
				return
			}
			close(parked.rel)
			parked = nil
		case s.Who == "P":
			var delta int
			n := 0
			for j := 0; j <= k; j++ {
				if rec.Sched[j].Who == "P" {
					n++
				}
			}
			delta = rec.Deltas[n-1]
			if err := p.WriteFrame(peer.Window(xid, int32(delta))); err != nil {
				report("harness", "window write: "+err.Error())
				return
			}
			select {
			case <-c.recv:
			case <-time.After(stepTimeout):
				report("stuck:update", fmt.Sprintf("step %d: the window update was not applied within %v", k, stepTimeout))
				return
			}
		}
		if !expect(k, s) {
			return
		}
	}
	if rec.Final == "done" {
		// the message is on the wire, once
		ok := false
		for deadline := time.Now().Add(stepTimeout); time.Now().Before(deadline) && !ok; time.Sleep(time.Millisecond) {
			pmu.Lock()
			n := 0
			for _, f := range frames {
				if f.ID == xid && f.Code == pmpx.Code_ChannelData && bytes.Equal(f.Data, payload) {
					n++
				}
			}
			pmu.Unlock()
			ok = n == 1
		}
		if !ok {
			report("frames", "the peer did not receive the message exactly once after Send returned OK")
		}
	}
	for _, e := range mpxh.Panics(lg.Take()) {
		report("panic:library", e)
	}
}

func main() {
	in := flag.String("in", "", "TLC output with schedules")
	flag.Parse()
	c := &ctl{gate: make(chan gateArrival, 4), recv: make(chan int64, 16)}
	mpx.SetVerifTracer(c.trace)
	enc := json.NewEncoder(os.Stdout)
	nMis, n, steps := 0, 0, 0
	bySig := map[string]int{}
	err := tlcio.Lines(*in, func(i int, raw []byte) error {
		if nMis >= 6 {
			return nil
		}
		var rec Rec
		if err := json.Unmarshal(raw, &rec); err != nil {
			return err
		}
		runSchedule(&rec, c, func(sig, detail string) {
			nMis++
			bySig[sig]++
			if bySig[sig] <= 3 {
				enc.Encode(Outcome{Case: i, Sig: sig, Detail: detail, Sched: schedString(&rec)})
			}
		})
		n++
		steps += len(rec.Sched)
		return nil
	})
	if err != nil {
		fmt.Fprintln(os.Stderr, "harness error:", err)
		os.Exit(2)
	}
	enc.Encode(map[string]any{"summary": map[string]any{"schedules": n, "steps": steps, "mismatches": nMis, "by_sig": bySig}})
}
