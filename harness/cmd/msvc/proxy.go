package main

import (
	"io"
	"net"
	"sync"
)

// cutProxy forwards TCP connections to the server and can cut all of them at once (it keeps accepting new ones).
type cutProxy struct {
	ln     net.Listener
	target string
	mu     sync.Mutex
	conns  []net.Conn
}

func newCutProxy(target string) (*cutProxy, error) {
	ln, err := net.Listen("tcp", "127.0.0.1:0")
	if err != nil {
		return nil, err
	}
	p := &cutProxy{ln: ln, target: target}
	go p.loop()
	return p, nil
}

func (p *cutProxy) addr() string { return p.ln.Addr().String() }

func (p *cutProxy) loop() {
	for {
		c, err := p.ln.Accept()
		if err != nil {
			return
		}
		s, err := net.Dial("tcp", p.target)
		if err != nil {
			c.Close()
			continue
		}
		p.mu.Lock()
		p.conns = append(p.conns, c, s)
		p.mu.Unlock()
		go func() { io.Copy(s, c); s.Close(); c.Close() }()
		go func() { io.Copy(c, s); s.Close(); c.Close() }()
	}
}

// cutAll closes every forwarded connection, both sides.
func (p *cutProxy) cutAll() {
	p.mu.Lock()
	cs := p.conns
	p.conns = nil
	p.mu.Unlock()
	for _, c := range cs {
		c.Close()
	}
}

func (p *cutProxy) close() {
	p.ln.Close()
	p.cutAll()
}
