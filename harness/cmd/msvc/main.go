// msvc executes the scripts of SvcCall.tla on the rpc layer itself: a real rpc.Server whose handler sits in the engine's
// command loop, a real rpc.Client; one call per script, steps in the script's order (C04).
package main

import (
	"encoding/json"
	"flag"
	"fmt"
	"os"
	"time"

	"github.com/basecomplextech/baselibrary/async"
	"github.com/basecomplextech/baselibrary/ref"
	"github.com/basecomplextech/baselibrary/status"
	"github.com/basecomplextech/spec"
	"github.com/basecomplextech/spec/mpx"
	"github.com/basecomplextech/spec/rpc"

	"verifharness/internal/mpxh"
	"verifharness/internal/tlcio"
	"verifharness/svcrt"
)

func msg(tag string, n int) []byte {
	w := spec.NewMessageWriter()
	w.Field(1).String(tag)
	w.Field(2).Int64(int64(n))
	b, err := w.Build()
	if err != nil {
		panic("harness: " + err.Error())
	}
	return append([]byte(nil), b...)
}

type clientSide struct {
	cl   rpc.Client
	kind string
	req  []byte
	r    *rpc.Request
	ch   rpc.Channel
}

func (c *clientSide) ctx() async.Context { return async.TimeoutContext(svcrt.OpTimeout) }

func (c *clientSide) Call() ([]byte, status.Status) {
	c.r = rpc.NewRequest()
	in, _, err := spec.ParseMessage(c.req)
	if err != nil {
		return nil, status.WrapError(err)
	}
	if st := c.r.AddMessage(c.kind, in); !st.OK() {
		return nil, st
	}
	preq, st := c.r.Build()
	if !st.OK() {
		return nil, st
	}
	switch c.kind {
	case "unary", "probe":
		defer c.r.Free()
		res, st := c.cl.Request(c.ctx(), preq)
		if !st.OK() {
			return nil, st
		}
		defer res.Release()
		return append([]byte(nil), res.Unwrap()...), status.OK
	case "oneway":
		defer c.r.Free()
		return nil, c.cl.RequestOneway(c.ctx(), preq)
	}
	ch, st := c.cl.Channel(c.ctx(), preq)
	if !st.OK() {
		c.r.Free()
		return nil, st
	}
	c.ch = ch
	return nil, status.OK
}

func (c *clientSide) Send(m []byte) status.Status { return c.ch.Send(c.ctx(), m) }
func (c *clientSide) SendEnd() status.Status      { return c.ch.SendEnd(c.ctx()) }
func (c *clientSide) Recv() ([]byte, status.Status) {
	b, st := c.ch.Receive(c.ctx())
	return append([]byte(nil), b...), st
}
func (c *clientSide) Response() ([]byte, status.Status) {
	v, st := c.ch.Response(c.ctx())
	return append([]byte(nil), v...), st
}
func (c *clientSide) Free() {
	if c.ch != nil {
		c.ch.Free()
		c.r.Free()
	}
}

type Outcome struct {
	Case   int    `json:"case"`
	Sig    string `json:"sig"`
	Detail string `json:"detail"`
	Sched  string `json:"sched"`
}

func main() {
	in := flag.String("in", "", "TLC output with scripts")
	limit := flag.Int("limit", 0, "execute at most this many scripts, sampled with -seed (0: all)")
	seed := flag.Int64("seed", 1, "sampling seed")
	flag.Parse()
	var scripts []*svcrt.Script
	err := tlcio.Lines(*in, func(i int, raw []byte) error {
		s := &svcrt.Script{}
		if err := json.Unmarshal(raw, s); err != nil {
			return err
		}
		if s.Kind != "sub" { // subservices exist in generated code only
			scripts = append(scripts, s)
		}
		return nil
	})
	if err != nil {
		fmt.Fprintln(os.Stderr, "harness error:", err)
		os.Exit(2)
	}
	total := len(scripts)
	scripts = svcrt.Sample(scripts, *limit, *seed)
	rt := svcrt.NewRT()
	handler := func(ctx rpc.Context, ch rpc.ServerChannel) (ref.R[[]byte], status.Status) {
		req, st := ch.Request(ctx)
		if !st.OK() {
			return nil, st
		}
		call := req.Calls().Get(0)
		method := call.Method().Unwrap()
		if method == "probe" {
			return ref.NewNoop(msg("probe", 0)), status.OK // not part of any script: is the client usable again?
		}
		sc := rt.Enter(method, call.Input().Raw())
		c := async.TimeoutContext(svcrt.OpTimeout)
		out, st := sc.Loop(svcrt.ServerOps{
			Request: func() ([]byte, status.Status) {
				r2, st := ch.Request(c)
				if !st.OK() {
					return nil, st
				}
				return r2.Calls().Get(0).Input().Raw(), status.OK
			},
			Recv:    func() ([]byte, status.Status) { return ch.Receive(c) },
			Send:    func(m []byte) status.Status { return ch.Send(c, m) },
			SendEnd: func() status.Status { return ch.SendEnd(c) },
		})
		if method == "oneway" {
			return nil, rpc.SkipResponse
		}
		if !st.OK() {
			return nil, st
		}
		return ref.NewNoop(out), status.OK
	}
	opts := rpc.Default()
	opts.Compression = false
	lg := mpxh.NewCapLogger()
	srv := rpc.NewServer("127.0.0.1:0", rpc.HandleFunc(handler), lg, opts)
	if st := srv.Start(); !st.OK() {
		fmt.Fprintln(os.Stderr, "harness error:", st)
		os.Exit(2)
	}
	select {
	case <-srv.Listening().Wait():
	case <-time.After(5 * time.Second):
		fmt.Fprintln(os.Stderr, "harness error: server not listening")
		os.Exit(2)
	}
	clg := mpxh.NewCapLogger()
	px, err := newCutProxy(srv.Address())
	if err != nil {
		fmt.Fprintln(os.Stderr, "harness error:", err)
		os.Exit(2)
	}
	defer px.close()
	rt.Drop = px.cutAll
	cl := rpc.NewClient(px.addr(), mpx.ClientMode_OnDemand, clg, opts)
	defer cl.Close()
	// after a lost connection the on-demand client must succeed again on its next calls
	recovered := func() bool {
		var last status.Status
		for try := 0; try < 5; try++ {
			cs := &clientSide{cl: cl, kind: "unary", req: msg("probe", try)}
			cs.kind = "probe"
			_, st := cs.Call()
			if st.OK() {
				return true
			}
			last = st
			time.Sleep(10 * time.Millisecond)
		}
		fmt.Fprintln(os.Stderr, "probe:", last)
		return false
	}
	enc := json.NewEncoder(os.Stdout)
	nMis, steps, lostScripts := 0, 0, 0
	bySig := map[string]int{}
	byKind := map[string]int{}
	for i, s := range scripts {
		if nMis >= 4 {
			break // every further failing script may cost several time limits
		}
		p := svcrt.Payloads{Req: msg("req-"+s.Kind, i), Resp: msg("resp-"+s.Kind, i),
			In: func(n int) []byte { return msg("in", 1000*i+n) }, Out: func(n int) []byte { return msg("out", 1000*i+n) }}
		if s.Kind == "oneway" {
			p.Resp = nil
		}
		cs := &clientSide{cl: cl, kind: s.Kind, req: p.Req}
		rt.Run(s, s.Kind, p, cs, func(sig, detail string) {
			nMis++
			bySig[sig]++
			if bySig[sig] <= 3 {
				enc.Encode(Outcome{Case: i, Sig: sig, Detail: detail, Sched: s.String()})
			}
		})
		byKind[s.Kind]++
		steps += len(s.Script)
		for _, st := range s.Script {
			if st.Who == "x" {
				lostScripts++
				if !recovered() {
					nMis++
					bySig["no-recovery"]++
					enc.Encode(Outcome{Case: i, Sig: "no-recovery", Detail: "after a script in which the connection was lost the client did not complete a call in 5 tries", Sched: s.String()})
				}
			}
		}
	}
	for _, p := range mpxh.Panics(clg.Take()) {
		nMis++
		enc.Encode(Outcome{Sig: "panic:library", Detail: p})
	}
	for _, p := range lg.Take() {
		if containsAny(p, "Connection panic", "Channel panic") {
			nMis++
			enc.Encode(Outcome{Sig: "panic:library", Detail: p})
		}
	}
	for _, m := range rt.Stray {
		nMis++
		enc.Encode(Outcome{Sig: "stray-handler-run", Detail: "handler " + m + " ran outside any script"})
	}
	enc.Encode(map[string]any{"summary": map[string]any{"scripts": len(scripts), "of": total, "steps": steps, "mismatches": nMis, "by_sig": bySig, "by_kind": byKind, "lost": lostScripts}})
}

func containsAny(s string, subs ...string) bool {
	for _, x := range subs {
		for i := 0; i+len(x) <= len(s); i++ {
			if s[i:i+len(x)] == x {
				return true
			}
		}
	}
	return false
}
