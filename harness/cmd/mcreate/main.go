// mcreate replays the schedules of MpxCreate.tla on a real connection: one goroutine opens a channel (held at the
// cr.check1 / cr.set / cr.check2 / cr.del gates of the verif build) while the connection is being closed by its peer (the
// closing goroutine is held at cl.setflag / cl.range / cl.del / cl.done).  Conformance: the creator is at the gate the
// model names and Conn.Channel returns what the model says ("ok" or "closed").  Verdict: a channel that was handed out
// is terminated by the close (its Receive returns), nothing panics.  How many entries the sweep of the real map visits
// when the new channel is inserted while it runs is up to the map; the replay follows the real closer there.
package main

import (
	"encoding/json"
	"flag"
	"fmt"
	"net"
	"os"
	"runtime"
	"strconv"
	"strings"
	"sync"
	"time"

	"github.com/basecomplextech/baselibrary/async"
	"github.com/basecomplextech/baselibrary/bin"
	"github.com/basecomplextech/baselibrary/status"
	"github.com/basecomplextech/spec/mpx"
	"github.com/basecomplextech/spec/proto/pmpx"

	"verifharness/internal/mpxh"
	"verifharness/internal/peer"
	"verifharness/internal/tlcio"
	"verifharness/internal/tscale"
)

type Rec struct {
	Sched  [][]string `json:"sched"`
	Result string     `json:"result"`
}

type Outcome struct {
	Case   int    `json:"case"`
	Sig    string `json:"sig"`
	Detail string `json:"detail"`
	Sched  string `json:"sched"`
}

var stepTimeout = tscale.D(3 * time.Second)

func goid() int64 {
	var buf [64]byte
	n := runtime.Stack(buf[:], false)
	f := strings.Fields(string(buf[:n]))
	id, _ := strconv.ParseInt(f[1], 10, 64)
	return id
}

type arrival struct {
	actor, gate string
	rel         chan struct{}
}

type ctl struct {
	mu      sync.Mutex
	active  bool
	creator int64
	closer  int64
	arrive  chan arrival
}

func (c *ctl) trace(ev string, id bin.Bin128, a, b int64) {
	var actor string
	switch ev {
	case "cr.check1", "cr.set", "cr.check2", "cr.del":
		actor = "CR"
	case "cl.begin", "cl.setflag", "cl.range", "cl.del", "cl.done":
		actor = "CL"
	default:
		return
	}
	c.mu.Lock()
	if !c.active {
		c.mu.Unlock()
		return
	}
	g := goid()
	if actor == "CR" && g != c.creator {
		c.mu.Unlock()
		return
	}
	if actor == "CL" {
		if c.closer == 0 && ev == "cl.begin" {
			c.closer = g
		}
		if g != c.closer {
			c.mu.Unlock()
			return
		}
	}
	c.mu.Unlock()
	rel := make(chan struct{})
	c.arrive <- arrival{actor, ev, rel}
	<-rel
}

func (c *ctl) free() {
	c.mu.Lock()
	c.active = false
	c.mu.Unlock()
	for {
		select {
		case a := <-c.arrive:
			close(a.rel)
		case <-time.After(20 * time.Millisecond):
			return
		}
	}
}

func schedString(r *Rec) string {
	var b strings.Builder
	for i, s := range r.Sched {
		if i > 0 {
			b.WriteString(" ")
		}
		b.WriteString(s[0] + ":" + s[1])
	}
	return b.String()
}

// rawServer accepts one connection and answers the handshake; it never reads channels.
func accept(ln net.Listener) (*peer.Peer, error) {
	c, err := ln.Accept()
	if err != nil {
		return nil, err
	}
	p := peer.Wrap(c)
	if _, err := p.ReadLine(stepTimeout); err != nil {
		return nil, err
	}
	if _, err := p.ReadFrame(stepTimeout); err != nil {
		return nil, err
	}
	if err := p.WriteRaw([]byte(peer.ProtocolLine)); err != nil {
		return nil, err
	}
	resp, err := pmpx.BuildConnectResponse(pmpx.Version_Version10, pmpx.ConnectCompression_None)
	if err != nil {
		return nil, err
	}
	if err := p.WriteFrame(resp.Unwrap().Raw()); err != nil {
		return nil, err
	}
	go func() {
		for {
			if _, err := p.ReadFrame(time.Hour); err != nil {
				return
			}
		}
	}()
	return p, nil
}

func runSchedule(idx int, rec *Rec, c *ctl, report func(sig, detail string)) {
	ln, err := net.Listen("tcp", "127.0.0.1:0")
	if err != nil {
		report("harness", err.Error())
		return
	}
	defer ln.Close()
	type acc struct {
		p   *peer.Peer
		err error
	}
	accc := make(chan acc, 1)
	go func() { p, err := accept(ln); accc <- acc{p, err} }()
	lg := mpxh.NewCapLogger()
	opts := mpx.Default()
	opts.Compression = false
	conn, st := mpx.Connect(async.NoContext(), ln.Addr().String(), lg, opts)
	if !st.OK() {
		report("harness", "connect: "+st.String())
		return
	}
	defer conn.Close()
	a := <-accc
	if a.err != nil {
		report("harness", "accept: "+a.err.Error())
		return
	}
	defer a.p.Close()
	// two channels are open already (the model's Old)
	var olds []mpx.Channel
	for i := 0; i < 2; i++ {
		ch, st := conn.Channel(async.TimeoutContext(stepTimeout))
		if !st.OK() {
			report("harness", "channel: "+st.String())
			return
		}
		olds = append(olds, ch)
	}
	parked := map[string]*arrival{}
	// pump reads arrivals until actor is parked (or, for the creator, has returned)
	type cres struct {
		ch mpx.Channel
		st status.Status
	}
	resc := make(chan cres, 1)
	var result *cres
	pump := func(actor string) (string, bool) {
		deadline := time.After(stepTimeout)
		for {
			if p := parked[actor]; p != nil {
				return p.gate, true
			}
			if actor == "CR" && result != nil {
				return "returned", true
			}
			select {
			case x := <-c.arrive:
				xx := x
				parked[x.actor] = &xx
			case r := <-resc:
				rr := r
				result = &rr
			case <-deadline:
				return "", false
			}
		}
	}
	release := func(actor string) {
		close(parked[actor].rel)
		delete(parked, actor)
	}
	c.mu.Lock()
	c.active, c.closer = true, 0
	c.mu.Unlock()
	ready := make(chan struct{})
	go func() {
		c.mu.Lock()
		c.creator = goid()
		c.mu.Unlock()
		close(ready)
		ch, st := conn.Channel(async.TimeoutContext(tscale.D(10 * time.Second)))
		resc <- cres{ch, st}
	}()
	<-ready
	if g, ok := pump("CR"); !ok || g != "cr.check1" {
		report("harness-stuck", fmt.Sprintf("the creator did not reach cr.check1 (%q)", g))
		c.free()
		return
	}
	// the peer drops the connection: the receive loop fails and closes the connection
	a.p.Close()
	if g, ok := pump("CL"); !ok || g != "cl.begin" {
		report("harness-stuck", fmt.Sprintf("the closer did not reach cl.begin (%q)", g))
		c.free()
		return
	}
	release("CL")
	if g, ok := pump("CL"); !ok || g != "cl.setflag" {
		report("harness-stuck", fmt.Sprintf("the closer did not reach cl.setflag (%q)", g))
		c.free()
		return
	}
	ok := true
	for k, s := range rec.Sched {
		actor, gate := s[0], s[1]
		if actor == "CR" {
			g, got := pump("CR")
			if !got {
				report("stuck:"+gate, fmt.Sprintf("step %d: the creator did not reach %q", k, gate))
				ok = false
			} else if g != gate {
				report("gate:"+g, fmt.Sprintf("step %d: the creator is at %q, the model says %q", k, g, gate))
				ok = false
			} else {
				release("CR")
				if _, got := pump("CR"); !got {
					report("stuck-in:"+gate, fmt.Sprintf("step %d: the creator neither returned nor reached its next gate after %q", k, gate))
					ok = false
				}
			}
		} else {
			g, got := pump("CL")
			if !got {
				report("stuck:"+gate, fmt.Sprintf("step %d: the closer did not reach a gate (model: %q)", k, gate))
				ok = false
				break
			}
			switch gate {
			case "cl.flag":
				// the flag is stored between the cl.setflag gate and the cl.range gate
				if g != "cl.setflag" {
					report("gate:"+g, fmt.Sprintf("step %d: the closer is at %q, the model raises the flag now", k, g))
					ok = false
					break
				}
				release("CL")
				if g2, got := pump("CL"); !got || g2 != "cl.range" {
					report("gate:"+g2, fmt.Sprintf("step %d: after raising the flag the closer is at %q, not at cl.range", k, g2))
					ok = false
				}
			case "cl.range":
				if g == "cl.setflag" {
					// the code raises the flag after the sweep (not the model's order): follow the code, the verdict decides
					release("CL")
					g, got = pump("CL")
				}
				if !got || g != "cl.range" {
					report("gate:"+g, fmt.Sprintf("step %d: the closer is at %q, the model starts the sweep now", k, g))
					ok = false
					break
				}
				release("CL")
				pump("CL")
			case "cl.del":
				if g == "cl.del" {
					release("CL")
					pump("CL")
				} // else: the real sweep visits fewer entries than the model's
			case "cl.done":
				for g == "cl.del" { // the real sweep visits more entries than the model's
					release("CL")
					g, got = pump("CL")
					if !got {
						break
					}
				}
				if g == "cl.done" {
					release("CL")
				}
			}
		}
		if !ok {
			break
		}
	}
	c.free()
	// verdict
	if result == nil {
		select {
		case r := <-resc:
			result = &r
		case <-time.After(tscale.D(12 * time.Second)):
			report("hang:channel", "Conn.Channel did not return")
			return
		}
	}
	got := "closed"
	if result.st.OK() {
		got = "ok"
	} else if result.st.Code != status.CodeClosed {
		got = string(result.st.Code)
	}
	if ok && got != rec.Result {
		report("result:"+got, fmt.Sprintf("Conn.Channel returned %q (%v), the model says %q", got, result.st, rec.Result))
	}
	chans := append([]mpx.Channel{}, olds...)
	if result.st.OK() {
		chans = append(chans, result.ch)
	}
	for i, ch := range chans {
		func() {
			defer func() {
				if p := recover(); p != nil {
					report("panic:user", fmt.Sprintf("channel %d: %v", i, p))
				}
			}()
			_, st := ch.Receive(async.TimeoutContext(tscale.D(2 * time.Second)))
			if st.OK() || st.Code == status.CodeTimeout {
				name := "an old channel"
				if i == len(olds) {
					name = "the channel handed out during the close"
				}
				report("orphan", fmt.Sprintf("%s is not terminated by the connection's close: Receive returned %v", name, st))
			}
			ch.Free()
		}()
	}
	for _, p := range mpxh.Panics(lg.Take()) {
		report("panic:library", p)
	}
}

func main() {
	in := flag.String("in", "", "TLC output with schedules")
	flag.Parse()
	c := &ctl{arrive: make(chan arrival, 16)}
	mpx.SetVerifTracer(c.trace)
	enc := json.NewEncoder(os.Stdout)
	nMis, n, steps := 0, 0, 0
	bySig := map[string]int{}
	err := tlcio.Lines(*in, func(i int, raw []byte) error {
		if nMis >= 12 {
			return nil
		}
		var rec Rec
		if err := json.Unmarshal(raw, &rec); err != nil {
			return err
		}
		runSchedule(i, &rec, c, func(sig, detail string) {
			nMis++
			bySig[sig]++
			if bySig[sig] <= 3 {
				enc.Encode(Outcome{Case: i, Sig: sig, Detail: detail, Sched: schedString(&rec)})
			}
		})
		n++
		steps += len(rec.Sched)
		return nil
	})
	if err != nil {
		fmt.Fprintln(os.Stderr, "harness error:", err)
		os.Exit(2)
	}
	enc.Encode(map[string]any{"summary": map[string]any{"schedules": n, "steps": steps, "mismatches": nMis, "by_sig": bySig}})
}
