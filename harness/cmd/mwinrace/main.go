// mwinrace checks the window arithmetic of MpxFlow.tla (C07: sent - granted never exceeds the window) where no
// schedule can be forced: a real handler streams one-byte messages as fast as it can while a wire-level peer floods
// the channel with window updates of one byte each.  The sender's charge (window -= size) and the receive loop's
// credit (window += delta) then meet millions of times; every charge or credit that is lost shows in the exact
// number of bytes the sender is admitted before it blocks for good: it must equal W + sum(deltas).
package main

import (
	"encoding/binary"
	"encoding/json"
	"flag"
	"fmt"
	"os"
	"sync/atomic"
	"time"

	"github.com/basecomplextech/baselibrary/status"
	"github.com/basecomplextech/spec/mpx"
	"github.com/basecomplextech/spec/proto/pmpx"

	"verifharness/internal/mpxh"
	"verifharness/internal/peer"
	"verifharness/internal/tscale"
)

type Finding struct {
	Round  int    `json:"round"`
	Sig    string `json:"sig"`
	Detail string `json:"detail"`
}

var sends atomic.Int64

func handler(ctx mpx.Context, ch mpx.Channel) status.Status {
	if _, st := ch.Receive(ctx); !st.OK() {
		return status.OK
	}
	one := []byte{'x'}
	for {
		if st := ch.Send(ctx, one); !st.OK() {
			return status.OK
		}
		sends.Add(1)
	}
}

func main() {
	rounds := flag.Int("rounds", 6, "rounds")
	seed := flag.Int("seed", 1, "seed")
	flag.Parse()
	enc := json.NewEncoder(os.Stdout)
	srv, err := mpxh.StartServer(mpx.HandleFunc(handler), mpx.Default())
	if err != nil {
		fmt.Fprintln(os.Stderr, "harness error:", err)
		os.Exit(2)
	}
	found := 0
	var totalUpd, totalBytes, overlap int64
	for r := 0; r < *rounds; r++ {
		w0 := int32(200_000 + 50_000*((r+*seed)%4))
		m := 300_000
		p, err := peer.Dial(srv.Addr)
		if err != nil {
			fmt.Fprintln(os.Stderr, "harness error:", err)
			os.Exit(2)
		}
		if _, err := p.HandshakeClient(false); err != nil {
			fmt.Fprintln(os.Stderr, "harness error: handshake:", err)
			os.Exit(2)
		}
		id := peer.ID(100 + r)
		var got atomic.Int64
		readerDone := make(chan struct{})
		go func() {
			defer close(readerDone)
			for {
				f, err := p.ReadFrame(time.Hour)
				if err != nil {
					return
				}
				for _, g := range f.Flatten() {
					if g.Code == pmpx.Code_ChannelData && g.ID == id {
						got.Add(int64(len(g.Data)))
					}
				}
			}
		}()
		sends.Store(0)
		if err := p.WriteFrame(peer.Open(id, w0, []byte("go"))); err != nil {
			fmt.Fprintln(os.Stderr, "harness error:", err)
			os.Exit(2)
		}
		// the flood: m updates of one byte, 256 frames per write
		one := peer.Window(id, 1)
		frame := make([]byte, 4+len(one))
		binary.BigEndian.PutUint32(frame, uint32(len(one)))
		copy(frame[4:], one)
		chunk := make([]byte, 0, 256*len(frame))
		for i := 0; i < 256; i++ {
			chunk = append(chunk, frame...)
		}
		before := sends.Load()
		p.C.SetWriteDeadline(time.Now().Add(tscale.D(60 * time.Second)))
		for sent := 0; sent < m; sent += 256 {
			n := 256
			if m-sent < n {
				n = m - sent
			}
			if _, err := p.C.Write(chunk[:n*len(frame)]); err != nil {
				fmt.Fprintln(os.Stderr, "harness error: flood:", err)
				os.Exit(2)
			}
		}
		overlap += sends.Load() - before
		bound := int64(w0) + int64(m)
		deadline := time.Now().Add(tscale.D(20 * time.Second))
		for got.Load() < bound && time.Now().Before(deadline) {
			time.Sleep(2 * time.Millisecond)
		}
		time.Sleep(150 * time.Millisecond) // anything beyond the bound arrives now
		total := got.Load()
		switch {
		case total > bound:
			found++
			enc.Encode(Finding{Round: r, Sig: "window-overrun", Detail: fmt.Sprintf(
				"the peer granted %d + %d x 1 = %d bytes, the sender was admitted %d bytes (%d more than its window ever allowed)", w0, m, bound, total, total-bound)})
		case total < bound:
			found++
			enc.Encode(Finding{Round: r, Sig: "hang:window-stuck", Detail: fmt.Sprintf(
				"the peer granted %d bytes in all, the sender stopped after %d bytes and stayed blocked for %v", bound, total, tscale.D(20*time.Second))})
		}
		totalUpd += int64(m)
		totalBytes += total
		p.Close()
		<-readerDone
	}
	enc.Encode(map[string]any{"summary": map[string]any{"rounds": *rounds, "updates": totalUpd, "bytes": totalBytes,
		"sends_during_floods": overlap, "findings": found}})
}
