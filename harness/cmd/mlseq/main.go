// mlseq executes the operation sequences of MpxListenSeq.tla on real connections (C20): several close listeners are
// registered and unsubscribed in the order TLC chose, the connection is closed where the sequence says (or at the end),
// and every listener must have fired exactly as often as the specification says; registrations report "ok" / "closed".
package main

import (
	"encoding/json"
	"flag"
	"fmt"
	"os"
	"sync"
	"sync/atomic"
	"time"

	"github.com/basecomplextech/baselibrary/async"
	"github.com/basecomplextech/baselibrary/status"
	"github.com/basecomplextech/spec/mpx"

	"verifharness/internal/mpxh"
	"verifharness/internal/tlcio"
	"verifharness/internal/tscale"
)

type Op struct {
	Op  string `json:"op"`
	L   string `json:"l"`
	Res string `json:"res"`
}

type Rec struct {
	Ops   []Op           `json:"ops"`
	Fired map[string]int `json:"fired"`
}

type Outcome struct {
	Case   int    `json:"case"`
	Sig    string `json:"sig"`
	Detail string `json:"detail"`
	Ops    string `json:"ops"`
}

func opsString(r *Rec) string {
	s := ""
	for i, o := range r.Ops {
		if i > 0 {
			s += " "
		}
		s += o.Op
		if o.L != "" {
			s += "(" + o.L + ")"
		}
	}
	return s
}

func run(i int, rec *Rec, addr string, side string, srvConns chan mpx.Conn, report func(sig, detail string)) {
	lg := mpxh.NewCapLogger()
	opts := mpx.Default()
	opts.Compression = false
	cconn, st := mpx.Connect(async.TimeoutContext(tscale.D(3*time.Second)), addr, lg, opts)
	if !st.OK() {
		report("harness", "connect: "+st.String())
		return
	}
	defer cconn.Close()
	// listeners are registered either on the client's connection or on the server's connection of the same link
	conn := cconn
	if side == "server" {
		ch, st := cconn.Channel(async.TimeoutContext(tscale.D(3 * time.Second)))
		if st.OK() {
			st = ch.Send(async.TimeoutContext(tscale.D(3*time.Second)), []byte("hello"))
		}
		if !st.OK() {
			report("harness", "channel: "+st.String())
			return
		}
		defer ch.Free()
		select {
		case conn = <-srvConns:
		case <-time.After(tscale.D(3 * time.Second)):
			report("harness", "the server handler did not start")
			return
		}
	}
	counts := map[string]*atomic.Int32{}
	unsubs := map[string]func(){}
	closed := false
	closeIt := func() {
		conn.Close()
		select {
		case <-conn.Closed().Wait():
		case <-time.After(tscale.D(3 * time.Second)):
			report("hang:close", "the connection did not report closed")
		}
		closed = true
		// the close of the specification is atomic: the notification of the listeners is part of it (a listener
		// unsubscribed while the notification sweep is still on its way is a concurrent case, see MpxListen.tla)
		deadline := time.Now().Add(tscale.D(300 * time.Millisecond))
		for time.Now().Before(deadline) {
			done := true
			for l, want := range rec.Fired {
				got := 0
				if c := counts[l]; c != nil {
					got = int(c.Load())
				}
				if got < want {
					done = false
				}
			}
			if done {
				break
			}
			time.Sleep(200 * time.Microsecond)
		}
	}
	for k, o := range rec.Ops {
		switch o.Op {
		case "register":
			n := &atomic.Int32{}
			counts[o.L] = n
			unsub, ok := conn.OnClosed(func() { n.Add(1) })
			res := "closed"
			if ok {
				res = "ok"
				unsubs[o.L] = unsub
			}
			if res != o.Res {
				report("result:"+res, fmt.Sprintf("op %d: registering %s reported %q, the specification says %q", k, o.L, res, o.Res))
			}
		case "unsub":
			if u := unsubs[o.L]; u != nil {
				u()
			}
		case "close":
			closeIt()
		}
	}
	if !closed {
		closeIt()
	}
	// listeners run in the closing goroutine before Closed is visible or right after: give stragglers a moment
	deadline := time.Now().Add(tscale.D(300 * time.Millisecond))
	match := func() bool {
		for l, want := range rec.Fired {
			got := 0
			if c := counts[l]; c != nil {
				got = int(c.Load())
			}
			if got != want {
				return false
			}
		}
		return true
	}
	for !match() && time.Now().Before(deadline) {
		time.Sleep(time.Millisecond)
	}
	time.Sleep(time.Millisecond)
	for l, want := range rec.Fired {
		got := 0
		if c := counts[l]; c != nil {
			got = int(c.Load())
		}
		if got != want {
			report(fmt.Sprintf("fired:%d-want-%d", got, want), fmt.Sprintf("listener %s fired %d time(s), the specification says %d (%s side)", l, got, want, side))
		}
	}
	for _, p := range mpxh.Panics(lg.Take()) {
		report("panic:library", p)
	}
}

func main() {
	in := flag.String("in", "", "TLC output with operation sequences")
	every := flag.Int("every", 1, "take every n-th sequence")
	seed := flag.Int("seed", 1, "offset for -every")
	workers := flag.Int("workers", 8, "parallel replays")
	flag.Parse()
	enc := json.NewEncoder(os.Stdout)
	var mu sync.Mutex
	nMis, n := 0, 0
	bySig := map[string]int{}
	type job struct {
		i   int
		raw []byte
	}
	jobs := make(chan job, 64)
	var wg sync.WaitGroup
	for w := 0; w < *workers; w++ {
		wg.Add(1)
		go func() {
			defer wg.Done()
			srv, err := mpxh.StartServer(mpx.HandleFunc(func(ctx mpx.Context, ch mpx.Channel) status.Status {
				<-ctx.Wait()
				return status.OK
			}), mpx.Default())
			if err != nil {
				fmt.Fprintln(os.Stderr, "harness error:", err)
				os.Exit(2)
			}
			defer srv.Stop()
			for j := range jobs {
				mu.Lock()
				enough := nMis >= 30
				mu.Unlock()
				if enough {
					continue // the verdict is settled; every further failing sequence costs its settle time
				}
				var rec Rec
				if err := json.Unmarshal(j.raw, &rec); err != nil {
					fmt.Fprintln(os.Stderr, "harness error:", err)
					os.Exit(2)
				}
				run(j.i, &rec, srv.Addr, "client", nil, func(sig, detail string) {
					mu.Lock()
					defer mu.Unlock()
					nMis++
					bySig[sig]++
					if bySig[sig] <= 3 {
						enc.Encode(Outcome{Case: j.i, Sig: sig, Detail: detail, Ops: opsString(&rec)})
					}
				})
				mu.Lock()
				n++
				mu.Unlock()
			}
		}()
	}
	err := tlcio.Lines(*in, func(i int, raw []byte) error {
		if *every > 1 && (i+*seed)%*every != 0 {
			return nil
		}
		cp := make([]byte, len(raw))
		copy(cp, raw)
		jobs <- job{i, cp}
		return nil
	})
	close(jobs)
	wg.Wait()
	if err != nil {
		fmt.Fprintln(os.Stderr, "harness error:", err)
		os.Exit(2)
	}
	enc.Encode(map[string]any{"summary": map[string]any{"sequences": n, "mismatches": nMis, "by_sig": bySig}})
}
