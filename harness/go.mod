module verifharness

go 1.24

require (
	github.com/basecomplextech/baselibrary v0.0.0-20250218120829-9ca66e53fd5f
	github.com/basecomplextech/spec v0.0.0
	github.com/pierrec/lz4/v4 v4.1.21
)

require (
	github.com/mattn/go-isatty v0.0.20 // indirect
	golang.org/x/sys v0.22.0 // indirect
	gopkg.in/natefinch/lumberjack.v2 v2.2.1 // indirect
	gopkg.in/yaml.v3 v3.0.1 // indirect
)

replace github.com/basecomplextech/spec => /repo
