// Package tscale scales the wall-clock limits of the harnesses.  Every verdict that depends on a time limit ("did not
// return within", "still open after", "did not reconnect within") uses tscale.D, so that on a loaded machine (the check
// driver sets VERIF_TIMESCALE from the load average, and raises it further when it re-runs a driver to confirm a
// timing-dependent finding) slowness is not mistaken for a hang.
package tscale

import (
	"os"
	"strconv"
	"time"
)

var factor = func() float64 {
	f, err := strconv.ParseFloat(os.Getenv("VERIF_TIMESCALE"), 64)
	if err != nil || f < 1 {
		return 1
	}
	if f > 20 {
		return 20
	}
	return f
}()

// D returns d multiplied by the time scale.
func D(d time.Duration) time.Duration { return time.Duration(float64(d) * factor) }

// Factor returns the scale.
func Factor() float64 { return factor }
