// Package tlcio reads the payload lines TLC prints with PrintT(ToJson(x)):
// every payload line is a JSON string whose content is the JSON text of x.
package tlcio

import (
	"bufio"
	"encoding/json"
	"fmt"
	"io"
	"os"
)

// Lines calls fn with the inner JSON of every payload line of the file.
// Non-payload lines (TLC progress output) are skipped.
func Lines(path string, fn func(i int, raw []byte) error) error {
	f, err := os.Open(path)
	if err != nil {
		return err
	}
	defer f.Close()
	r := bufio.NewReaderSize(f, 1<<20)
	i := 0
	for {
		line, err := r.ReadBytes('\n')
		if len(line) > 0 {
			switch line[0] {
			case '"':
				var s string
				if e := json.Unmarshal(line, &s); e != nil {
					return fmt.Errorf("malformed payload line %d: %v", i, e)
				}
				if e := fn(i, []byte(s)); e != nil {
					return e
				}
				i++
			case '{', '[':
				if e := fn(i, line); e != nil {
					return e
				}
				i++
			}
		}
		if err == io.EOF {
			return nil
		}
		if err != nil {
			return err
		}
	}
}
