// Package peer is a scripted wire-level mpx peer over raw TCP: it speaks the framing
// (4-byte big-endian length + message) and builds/reads messages with proto/pmpx,
// but contains none of the endpoint logic (no windows, queues or channel map).
package peer

import (
	"bufio"
	"encoding/binary"
	"fmt"
	"io"
	"net"
	"time"
	"verifharness/internal/tscale"

	"github.com/basecomplextech/baselibrary/alloc"
	"github.com/basecomplextech/baselibrary/bin"
	"github.com/basecomplextech/spec/proto/pmpx"
	"github.com/pierrec/lz4/v4"
)

const ProtocolLine = "SpecMPX/1\n"

type Peer struct {
	C net.Conn
	R *bufio.Reader
	// Z, ZR are set once the connection has switched to lz4 (EnableLZ4): frames are written and read through them
	Z  *lz4.Writer
	ZR *lz4.Reader
}

// EnableLZ4 switches both directions to lz4 frames, as the endpoints do after a handshake that negotiated it.
func (p *Peer) EnableLZ4() error {
	z := lz4.NewWriter(p.C)
	if err := z.Apply(lz4.BlockSizeOption(lz4.Block256Kb)); err != nil {
		return err
	}
	p.Z = z
	// read with exact sizes only: an lz4 reader blocks until the buffer it was given is full
	p.ZR = lz4.NewReader(p.R)
	return nil
}

// Frame is a decoded frame as seen on the wire.
type Frame struct {
	Code  pmpx.Code
	ID    bin.Bin128
	Data  []byte
	Delta int32
	Win   int32
	Batch []Frame
	Raw   []byte
	OK    bool // connect response
	Err   string
}

func Dial(addr string) (*Peer, error) {
	// a loopback dial only times out when the machine is overloaded: retry, the address is our own server
	var c net.Conn
	var err error
	for try := 0; try < 4; try++ {
		if c, err = net.DialTimeout("tcp", addr, 5*time.Second); err == nil {
			return &Peer{C: c, R: bufio.NewReader(c)}, nil
		}
	}
	return nil, err
}

func Wrap(c net.Conn) *Peer { return &Peer{C: c, R: bufio.NewReader(c)} }

func (p *Peer) Close() { p.C.Close() }

func (p *Peer) WriteRaw(b []byte) error {
	p.C.SetWriteDeadline(time.Now().Add(tscale.D(5 * time.Second)))
	_, err := p.C.Write(b)
	return err
}

// WriteFrame writes length-prefixed bytes.
func (p *Peer) WriteFrame(msg []byte) error {
	b := make([]byte, 4+len(msg))
	binary.BigEndian.PutUint32(b, uint32(len(msg)))
	copy(b[4:], msg)
	return p.WriteStream(b)
}

// WriteStream writes bytes into the (possibly compressed) frame stream.
func (p *Peer) WriteStream(b []byte) error {
	if p.Z == nil {
		return p.WriteRaw(b)
	}
	p.C.SetWriteDeadline(time.Now().Add(tscale.D(5 * time.Second)))
	if _, err := p.Z.Write(b); err != nil {
		return err
	}
	return p.Z.Flush()
}

func (p *Peer) ReadLine(timeout time.Duration) (string, error) {
	p.C.SetReadDeadline(time.Now().Add(timeout))
	return p.R.ReadString('\n')
}

// ReadFrame reads one frame; io.EOF when the other side closed.
func (p *Peer) ReadFrame(timeout time.Duration) (Frame, error) {
	p.C.SetReadDeadline(time.Now().Add(timeout))
	var src io.Reader = p.R
	if p.ZR != nil {
		src = p.ZR
	}
	var head [4]byte
	if _, err := io.ReadFull(src, head[:]); err != nil {
		return Frame{}, err
	}
	n := binary.BigEndian.Uint32(head[:])
	if n > 64<<20 {
		return Frame{}, fmt.Errorf("peer: frame of %d bytes", n)
	}
	buf := make([]byte, n)
	if _, err := io.ReadFull(src, buf); err != nil {
		return Frame{}, err
	}
	return Decode(buf)
}

func Decode(buf []byte) (Frame, error) {
	msg, _, err := pmpx.ParseMessage(buf)
	if err != nil {
		return Frame{Raw: buf}, err
	}
	return decodeMsg(msg, buf), nil
}

func decodeMsg(msg pmpx.Message, raw []byte) Frame {
	f := Frame{Code: msg.Code(), Raw: raw}
	switch f.Code {
	case pmpx.Code_ConnectResponse:
		r := msg.ConnectResponse()
		f.OK = r.Ok()
		f.Err = r.Error().Clone()
	case pmpx.Code_ChannelOpen:
		m := msg.ChannelOpen()
		f.ID, f.Win, f.Data = m.Id(), m.Window(), append([]byte{}, m.Data()...)
	case pmpx.Code_ChannelClose:
		m := msg.ChannelClose()
		f.ID, f.Data = m.Id(), append([]byte{}, m.Data()...)
	case pmpx.Code_ChannelData:
		m := msg.ChannelData()
		f.ID, f.Data = m.Id(), append([]byte{}, m.Data()...)
	case pmpx.Code_ChannelWindow:
		m := msg.ChannelWindow()
		f.ID, f.Delta = m.Id(), m.Delta()
	case pmpx.Code_Batch:
		l := msg.Batch().List()
		for i := 0; i < l.Len(); i++ {
			f.Batch = append(f.Batch, decodeMsg(l.Get(i), nil))
		}
	}
	return f
}

// Flatten expands batches.
func (f Frame) Flatten() []Frame {
	if f.Code != pmpx.Code_Batch {
		return []Frame{f}
	}
	return f.Batch
}

// HandshakeClient performs the client side of the handshake; returns the response frame.
func (p *Peer) HandshakeClient(lz4 bool) (Frame, error) {
	if err := p.WriteRaw([]byte(ProtocolLine)); err != nil {
		return Frame{}, err
	}
	in := pmpx.NewConnectInput().WithCompression(lz4)
	req, err := in.Build()
	if err != nil {
		return Frame{}, err
	}
	if err := p.WriteFrame(req.Unwrap().Raw()); err != nil {
		return Frame{}, err
	}
	line, err := p.ReadLine(tscale.D(5 * time.Second))
	if err != nil {
		return Frame{}, err
	}
	if line != ProtocolLine {
		return Frame{}, fmt.Errorf("peer: protocol line %q", line)
	}
	return p.ReadFrame(tscale.D(5 * time.Second))
}

func raw(m pmpx.Message, err error) []byte {
	if err != nil {
		panic("harness: peer build: " + err.Error())
	}
	return append([]byte{}, m.Unwrap().Raw()...)
}

func Open(id bin.Bin128, window int32, data []byte) []byte {
	buf := alloc.NewBuffer()
	defer buf.Free()
	return raw(pmpx.BuildChannelOpen(pmpx.NewMessageWriterBuffer(buf), id, data, window))
}

func Data(id bin.Bin128, data []byte) []byte {
	buf := alloc.NewBuffer()
	defer buf.Free()
	return raw(pmpx.BuildChannelData(pmpx.NewMessageWriterBuffer(buf), id, data))
}

func CloseMsg(id bin.Bin128, data []byte) []byte {
	buf := alloc.NewBuffer()
	defer buf.Free()
	return raw(pmpx.BuildChannelClose(pmpx.NewMessageWriterBuffer(buf), id, data))
}

func Window(id bin.Bin128, delta int32) []byte {
	buf := alloc.NewBuffer()
	defer buf.Free()
	return raw(pmpx.BuildChannelWindow(pmpx.NewMessageWriterBuffer(buf), id, delta))
}

// OpenClose builds the open+close batch a client sends for SendAndClose on a fresh channel.
func OpenClose(id bin.Bin128, window int32, data []byte) []byte {
	buf := alloc.NewBuffer()
	defer buf.Free()
	b := pmpx.NewBatchBuilder(buf)
	b, err := b.Open(id, data, window)
	if err != nil {
		panic("harness: " + err.Error())
	}
	b, err = b.Close(id, nil)
	if err != nil {
		panic("harness: " + err.Error())
	}
	return raw(b.Build())
}

// ID makes a channel id from a small integer.
func ID(n int) bin.Bin128 {
	var id bin.Bin128
	id[0][0] = 0xC0
	id[1][4] = byte(n >> 24)
	id[1][5] = byte(n >> 16)
	id[1][6] = byte(n >> 8)
	id[1][7] = byte(n)
	return id
}
