// Package poolrec records the pool events of the verif build (acquire with the mask of attributes which are not
// fresh, release) in the order in which they are reported.  A release is reported before the object goes back to
// its pool and an acquisition after the object was taken, so the recorded order of a release and the next
// acquisition of the same object is their real order.  Objects are kept reachable until the process ends, so an
// address names one object for the whole trace (C18, validated by TLC against PoolTrace.tla).
package poolrec

import (
	"bufio"
	"fmt"
	"os"
	"sync"
	"unsafe"

	"github.com/basecomplextech/spec/verifhook"
)

type ev struct {
	put  bool
	kind string
	obj  int
	mask int64
}

var (
	mu   sync.Mutex
	evs  []ev
	ids  = map[unsafe.Pointer]int{}
	max  int
	drop int
)

// Start installs the recorder; at most limit events are kept (0 = no limit), later ones are counted only.
func Start(limit int) {
	max = limit
	verifhook.SetPoolTracer(func(kind string, obj unsafe.Pointer, put bool, mask int64) {
		mu.Lock()
		defer mu.Unlock()
		if max > 0 && len(evs) >= max {
			drop++
			return
		}
		id, ok := ids[obj]
		if !ok {
			id = len(ids) + 1
			ids[obj] = id
		}
		evs = append(evs, ev{put, kind, id, mask})
	})
}

// Dump writes the trace as ndjson and returns the number of events and objects.
func Dump(path string) (int, int, error) {
	mu.Lock()
	defer mu.Unlock()
	f, err := os.Create(path)
	if err != nil {
		return 0, 0, err
	}
	w := bufio.NewWriter(f)
	for _, e := range evs {
		op := "get"
		if e.put {
			op = "put"
		}
		fmt.Fprintf(w, "{\"e\":%q,\"k\":%q,\"o\":%d,\"m\":%d}\n", op, e.kind, e.obj, e.mask)
	}
	if err := w.Flush(); err != nil {
		return 0, 0, err
	}
	return len(evs), len(ids), f.Close()
}
