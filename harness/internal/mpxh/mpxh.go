// Package mpxh holds helpers shared by the mpx/rpc conformance drivers: servers on loopback,
// a capturing logger, payload generators.
package mpxh

import (
	"fmt"
	"strings"
	"sync"
	"time"
	"verifharness/internal/tscale"

	"github.com/basecomplextech/baselibrary/logging"
	"github.com/basecomplextech/baselibrary/status"
	"github.com/basecomplextech/spec/mpx"
)

// CapLogger counts error-level log calls (recovered panics, connection errors) and is silent otherwise.
type baseLogger = logging.Logger

type CapLogger struct {
	baseLogger
	mu     sync.Mutex
	Errors []string
}

func NewCapLogger() *CapLogger {
	l, err := logging.Init(&logging.Config{})
	if err != nil {
		panic(err)
	}
	return &CapLogger{baseLogger: l.Main()}
}

func (l *CapLogger) ErrorStatus(msg string, st status.Status, kv ...any) {
	l.mu.Lock()
	defer l.mu.Unlock()
	l.Errors = append(l.Errors, msg+": "+st.String())
}

func (l *CapLogger) Error(msg string, kv ...any) {
	l.mu.Lock()
	defer l.mu.Unlock()
	l.Errors = append(l.Errors, msg+fmt.Sprint(kv...))
}

func (l *CapLogger) ErrorOn() bool { return true }

// Take returns and clears the captured errors.
func (l *CapLogger) Take() []string {
	l.mu.Lock()
	defer l.mu.Unlock()
	e := l.Errors
	l.Errors = nil
	return e
}

// Panics returns captured messages that report a recovered panic.
func Panics(errs []string) []string {
	var out []string
	for _, e := range errs {
		if strings.Contains(e, "panic") {
			out = append(out, e)
		}
	}
	return out
}

// Server is a real mpx server on a loopback port.
type Server struct {
	S      mpx.Server
	Addr   string
	Logger *CapLogger
}

func StartServer(h mpx.Handler, opts mpx.Options) (*Server, error) {
	lg := NewCapLogger()
	s := mpx.NewServer("127.0.0.1:0", h, lg, opts)
	if st := s.Start(); !st.OK() {
		return nil, fmt.Errorf("server start: %v", st)
	}
	select {
	case <-s.Listening().Wait():
	case <-time.After(tscale.D(5 * time.Second)):
		return nil, fmt.Errorf("server did not start listening")
	}
	return &Server{S: s, Addr: s.Address(), Logger: lg}, nil
}

func (s *Server) Stop() {
	select {
	case <-s.S.Stop():
	case <-time.After(tscale.D(5 * time.Second)):
	}
}

// Payload makes n bytes that identify (channel, seq) in the first bytes.
func Payload(ch, seq, n int) []byte {
	b := make([]byte, n)
	for i := range b {
		b[i] = byte(1 + (ch*31+seq*7+i)%250)
	}
	if n >= 4 {
		b[0], b[1], b[2], b[3] = byte(ch), byte(seq>>8), byte(seq), 0xAB
	}
	return b
}
