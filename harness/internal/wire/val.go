// Package wire converts the value records printed by the TLA+ specification
// (WireFormat.tla) into Go values and walks encoded bytes with the real readers.
// It contains NO encoder or decoder of its own: expected bytes come from the
// specification, observed bytes and values from the library.
package wire

import (
	"encoding/json"
	"fmt"
	"math"

	"github.com/basecomplextech/baselibrary/bin"
)

// Val is a value record of the specification.
type Val struct {
	K      string            `json:"k"`
	B      bool              `json:"b,omitempty"`
	N      int               `json:"n,omitempty"`
	Neg    bool              `json:"neg,omitempty"`
	Mag    []int             `json:"mag,omitempty"`
	Bits   []int             `json:"bits,omitempty"`
	Bytes  []int             `json:"bytes,omitempty"`
	Data   []int             `json:"data,omitempty"`
	Fill   *int              `json:"fill,omitempty"`
	Elems  []Val             `json:"elems,omitempty"`
	Fields []json.RawMessage `json:"fields,omitempty"`
}

// Field is one <<tag, value>> pair of a message record.
type Field struct {
	Tag uint16
	Val Val
}

func (v *Val) MsgFields() ([]Field, error) {
	out := make([]Field, 0, len(v.Fields))
	for _, raw := range v.Fields {
		var pair []json.RawMessage
		if err := json.Unmarshal(raw, &pair); err != nil || len(pair) != 2 {
			return nil, fmt.Errorf("bad field pair %s", raw)
		}
		var tag int
		if err := json.Unmarshal(pair[0], &tag); err != nil {
			return nil, err
		}
		var fv Val
		if err := json.Unmarshal(pair[1], &fv); err != nil {
			return nil, err
		}
		out = append(out, Field{uint16(tag), fv})
	}
	return out, nil
}

func (v *Val) StructFields() ([]Val, error) {
	out := make([]Val, 0, len(v.Fields))
	for _, raw := range v.Fields {
		var fv Val
		if err := json.Unmarshal(raw, &fv); err != nil {
			return nil, err
		}
		out = append(out, fv)
	}
	return out, nil
}

func ToBytes(a []int) []byte {
	b := make([]byte, len(a))
	for i, x := range a {
		b[i] = byte(x)
	}
	return b
}

// FillBytes is Fill(n) of WireFormat.tla: 1 + (i % 250) for i = 1..n.
func FillBytes(n int) []byte {
	b := make([]byte, n)
	for i := 1; i <= n; i++ {
		b[i-1] = byte(1 + (i % 250))
	}
	return b
}

func (v *Val) Payload() []byte {
	if v.Fill != nil {
		return FillBytes(*v.Fill)
	}
	return ToBytes(v.Data)
}

func (v *Val) BoolV() bool { return v.B }

func (v *Val) ByteV() byte { return byte(v.N) }

// Mag64 returns the 64-bit magnitude.
func (v *Val) Mag64() uint64 {
	var u uint64
	for _, x := range v.Mag {
		u = u<<8 | uint64(byte(x))
	}
	return u
}

// Int64 value of a signed record (neg, mag).
func (v *Val) Int64() int64 {
	u := v.Mag64()
	if v.Neg {
		return int64(-u) // two's complement: works for 2^63 as well
	}
	return int64(u)
}

func (v *Val) F32() float32 {
	var u uint32
	for _, x := range v.Bits {
		u = u<<8 | uint32(byte(x))
	}
	return math.Float32frombits(u)
}

func (v *Val) F64() float64 {
	var u uint64
	for _, x := range v.Bits {
		u = u<<8 | uint64(byte(x))
	}
	return math.Float64frombits(u)
}

func (v *Val) Bin64() (r bin.Bin64) {
	copy(r[:], ToBytes(v.Bytes))
	return r
}

func (v *Val) Bin128() (r bin.Bin128) {
	b := ToBytes(v.Bytes)
	copy(r[0][:], b[0:8])
	copy(r[1][:], b[8:16])
	return r
}

func (v *Val) Bin256() (r bin.Bin256) {
	b := ToBytes(v.Bytes)
	for i := 0; i < 4; i++ {
		copy(r[i][:], b[i*8:i*8+8])
	}
	return r
}

func (v *Val) String() string {
	b, _ := json.Marshal(v)
	if len(b) > 300 {
		return string(b[:300]) + "..."
	}
	return string(b)
}
