package wire

import (
	"bytes"
	"fmt"
	"math"

	spec "github.com/basecomplextech/spec"
)

// Reader walks encoded bytes with the library's readers, driven by the tree the
// specification says was written, and collects every disagreement.
type Reader struct {
	Universe []uint16 // tags probed for absence
	Errs     []string
}

func (r *Reader) errf(path string, f string, a ...any) {
	if len(r.Errs) < 20 {
		r.Errs = append(r.Errs, path+": "+fmt.Sprintf(f, a...))
	}
}

var typeCodes = map[string]spec.Type{
	"byte": spec.TypeByte, "int16": spec.TypeInt16, "int32": spec.TypeInt32, "int64": spec.TypeInt64,
	"uint16": spec.TypeUint16, "uint32": spec.TypeUint32, "uint64": spec.TypeUint64,
	"float32": spec.TypeFloat32, "float64": spec.TypeFloat64,
	"bin64": spec.TypeBin64, "bin128": spec.TypeBin128, "bin256": spec.TypeBin256,
	"bytes": spec.TypeBytes, "string": spec.TypeString, "structraw": spec.TypeStruct,
}

// Check compares the value encoded in b (exactly b, no prefix) with v.
func (r *Reader) Check(b []byte, v *Val, path string) {
	if v.K == "none" {
		if len(b) != 0 {
			r.errf(path, "expected empty value, got %d bytes", len(b))
		}
		return
	}
	// delimiting: parser, probe and open agree and consume exactly b
	pv, n, err := spec.ParseValue(b)
	if err != nil {
		r.errf(path, "ParseValue error: %v", err)
		return
	}
	if n != len(b) || len(pv) != len(b) {
		r.errf(path, "ParseValue consumed %d of %d bytes", n, len(b))
	}
	if t, pn, err := spec.DecodeTypeSize(b); err != nil || pn != len(b) {
		r.errf(path, "DecodeTypeSize = (%v, %d, %v), want size %d", t, pn, err, len(b))
	}
	val := spec.Value(b)
	if want, ok := typeCodes[v.K]; ok && val.Type() != want {
		r.errf(path, "type code %d, want %d (%s)", val.Type(), want, v.K)
	}
	switch v.K {
	case "bool":
		want := spec.TypeFalse
		if v.BoolV() {
			want = spec.TypeTrue
		}
		if val.Type() != want {
			r.errf(path, "bool type code %d want %d", val.Type(), want)
		}
		got, err := val.BoolErr()
		if err != nil || got != v.BoolV() {
			r.errf(path, "Bool = (%v, %v) want %v", got, err, v.BoolV())
		}
	case "byte":
		got, err := val.ByteErr()
		if err != nil || got != v.ByteV() {
			r.errf(path, "Byte = (%v, %v) want %v", got, err, v.ByteV())
		}
	case "int16":
		got, err := val.Int16Err()
		if err != nil || int64(got) != v.Int64() {
			r.errf(path, "Int16 = (%v, %v) want %v", got, err, v.Int64())
		}
		r.widenInt(val, v, path)
	case "int32":
		got, err := val.Int32Err()
		if err != nil || int64(got) != v.Int64() {
			r.errf(path, "Int32 = (%v, %v) want %v", got, err, v.Int64())
		}
		r.widenInt(val, v, path)
	case "int64":
		r.widenInt(val, v, path)
	case "uint16":
		got, err := val.Uint16Err()
		if err != nil || uint64(got) != v.Mag64() {
			r.errf(path, "Uint16 = (%v, %v) want %v", got, err, v.Mag64())
		}
		r.widenUint(val, v, path)
	case "uint32":
		got, err := val.Uint32Err()
		if err != nil || uint64(got) != v.Mag64() {
			r.errf(path, "Uint32 = (%v, %v) want %v", got, err, v.Mag64())
		}
		r.widenUint(val, v, path)
	case "uint64":
		r.widenUint(val, v, path)
	case "float32":
		got, err := val.Float32Err()
		want := v.F32()
		if err != nil || !sameF32(got, want) {
			r.errf(path, "Float32 = (%v, %v) want %v", got, err, want)
		}
		g64, err := val.Float64Err()
		if err != nil || !sameF64(g64, float64(want)) {
			r.errf(path, "Float64(of float32) = (%v, %v) want %v", g64, err, float64(want))
		}
	case "float64":
		got, err := val.Float64Err()
		want := v.F64()
		if err != nil || !sameF64(got, want) {
			r.errf(path, "Float64 = (%v, %v) want %v", got, err, want)
		}
	case "bin64":
		got, err := val.Bin64Err()
		if err != nil || got != v.Bin64() {
			r.errf(path, "Bin64 = (%v, %v)", got, err)
		}
	case "bin128":
		got, err := val.Bin128Err()
		if err != nil || got != v.Bin128() {
			r.errf(path, "Bin128 = (%v, %v)", got, err)
		}
	case "bin256":
		got, err := val.Bin256Err()
		if err != nil || got != v.Bin256() {
			r.errf(path, "Bin256 = (%v, %v)", got, err)
		}
	case "bytes":
		got, err := val.BytesErr()
		if err != nil || !bytes.Equal(got, v.Payload()) {
			r.errf(path, "Bytes: len %d err %v, want len %d", len(got), err, len(v.Payload()))
		}
	case "string":
		got, err := val.StringErr()
		if err != nil || string(got) != string(v.Payload()) {
			r.errf(path, "String: len %d err %v, want len %d", len(got), err, len(v.Payload()))
		}
	case "structraw":
		ds, n, err := spec.DecodeStruct(b)
		want := v.Payload()
		if err != nil || n != len(b) || ds != len(want) {
			r.errf(path, "DecodeStruct = (%d, %d, %v) want data %d total %d", ds, n, err, len(want), len(b))
		} else if !bytes.Equal(b[:ds], want) {
			r.errf(path, "struct data differs")
		}
	case "struct":
		// typed struct (generated code): fields are consecutive values, delimited from the end
		ds, n, err := spec.DecodeStruct(b)
		if err != nil || n != len(b) || ds > len(b) {
			r.errf(path, "DecodeStruct = (%d, %d, %v) total %d", ds, n, err, len(b))
			return
		}
		fs, ferr := v.StructFields()
		if ferr != nil {
			r.errf(path, "harness: %v", ferr)
			return
		}
		off := ds
		for i := len(fs) - 1; i >= 0; i-- {
			_, sz, err := spec.DecodeTypeSize(b[:off])
			if err != nil || sz > off {
				r.errf(path, "struct field %d: DecodeTypeSize = (%d, %v) of %d", i, sz, err, off)
				return
			}
			r.Check(b[off-sz:off], &fs[i], fmt.Sprintf("%s.%d", path, i))
			off -= sz
		}
		if off != 0 {
			r.errf(path, "struct data has %d bytes before its first field", off)
		}
	case "list":
		r.checkList(b, v, path)
	case "msg":
		r.checkMsg(b, v, path)
	default:
		r.errf(path, "harness: unknown value kind %q", v.K)
	}
}

func sameF32(a, b float32) bool {
	if a != a || b != b {
		return a != a && b != b
	}
	return math.Float32bits(a) == math.Float32bits(b)
}

func sameF64(a, b float64) bool {
	if a != a || b != b {
		return a != a && b != b
	}
	return math.Float64bits(a) == math.Float64bits(b)
}

func (r *Reader) widenInt(val spec.Value, v *Val, path string) {
	got, err := val.Int64Err()
	if err != nil || got != v.Int64() {
		r.errf(path, "Int64 = (%v, %v) want %v", got, err, v.Int64())
	}
}

func (r *Reader) widenUint(val spec.Value, v *Val, path string) {
	got, err := val.Uint64Err()
	if err != nil || got != v.Mag64() {
		r.errf(path, "Uint64 = (%v, %v) want %v", got, err, v.Mag64())
	}
}

func (r *Reader) checkList(b []byte, v *Val, path string) {
	l, n, err := spec.ParseList(b)
	if err != nil || n != len(b) {
		r.errf(path, "ParseList = (%d, %v) want %d", n, err, len(b))
		return
	}
	if l.Len() != len(v.Elems) {
		r.errf(path, "list Len %d want %d", l.Len(), len(v.Elems))
		return
	}
	if !bytes.Equal(l.Raw(), b) {
		r.errf(path, "list Raw differs from input")
	}
	l2, err := spec.OpenListErr(b)
	if err != nil || l2.Len() != l.Len() {
		r.errf(path, "OpenListErr len %d err %v", l2.Len(), err)
	}
	cl := l.Clone()
	for i := range v.Elems {
		eb := l.GetBytes(i)
		if !bytes.Equal([]byte(l.Get(i)), eb) {
			r.errf(path, "Get(%d) != GetBytes(%d)", i, i)
		}
		if !bytes.Equal(cl.GetBytes(i), eb) {
			r.errf(path, "Clone().GetBytes(%d) differs", i)
		}
		r.Check(eb, &v.Elems[i], fmt.Sprintf("%s[%d]", path, i))
	}
}

func (r *Reader) checkMsg(b []byte, v *Val, path string) {
	fs, err := v.MsgFields()
	if err != nil {
		r.errf(path, "harness: %v", err)
		return
	}
	m, n, err := spec.ParseMessage(b)
	if err != nil || n != len(b) {
		r.errf(path, "ParseMessage = (%d, %v) want %d", n, err, len(b))
		return
	}
	if m.Fields() != len(fs) {
		r.errf(path, "message Fields() %d want %d", m.Fields(), len(fs))
		return
	}
	if !bytes.Equal(m.Raw(), b) || m.Len() != len(b) {
		r.errf(path, "message Raw/Len differ from input")
	}
	m2, err := spec.OpenMessageErr(b)
	if err != nil || m2.Fields() != m.Fields() {
		r.errf(path, "OpenMessageErr fields %d err %v", m2.Fields(), err)
	}
	cl := m.Clone()
	present := map[uint16]bool{}
	for i, f := range fs {
		present[f.Tag] = true
		tag, ok := m.TagAt(i)
		if !ok || tag != f.Tag {
			r.errf(path, "TagAt(%d) = (%d, %v) want %d", i, tag, ok, f.Tag)
		}
		if !m.HasField(f.Tag) {
			r.errf(path, "HasField(%d) = false for a written field", f.Tag)
		}
		fb := []byte(m.Field(f.Tag))
		if !bytes.Equal([]byte(m.FieldAt(i)), fb) {
			r.errf(path, "FieldAt(%d) != Field(%d)", i, f.Tag)
		}
		if !bytes.Equal([]byte(cl.Field(f.Tag)), fb) {
			r.errf(path, "Clone().Field(%d) differs", f.Tag)
		}
		raw := m.FieldRaw(f.Tag)
		if len(raw) < len(fb) || !bytes.Equal(raw[len(raw)-len(fb):], fb) {
			r.errf(path, "FieldRaw(%d) does not end with the field value", f.Tag)
		}
		r.Check(fb, &f.Val, fmt.Sprintf("%s.%d", path, f.Tag))
		r.typedField(m, f, path)
	}
	for _, t := range r.Universe {
		if present[t] {
			continue
		}
		if m.HasField(t) {
			r.errf(path, "HasField(%d) = true for an absent tag", t)
		}
		if fb := m.Field(t); len(fb) != 0 {
			r.errf(path, "Field(%d) returned %d bytes for an absent tag", t, len(fb))
		}
		if x, err := m.Int64Err(t); x != 0 || err != nil {
			r.errf(path, "Int64Err(absent %d) = (%d, %v)", t, x, err)
		}
		if s, err := m.StringErr(t); len(s) != 0 || err != nil {
			r.errf(path, "StringErr(absent %d) = (%q, %v)", t, s, err)
		}
		if x := m.Message(t); x.Fields() != 0 {
			r.errf(path, "Message(absent %d) has fields", t)
		}
		if x := m.List(t); x.Len() != 0 {
			r.errf(path, "List(absent %d) has elements", t)
		}
		if m.Bool(t) {
			r.errf(path, "Bool(absent %d) = true", t)
		}
	}
}

// typedField reads a scalar field through the message's typed accessor (a second code path).
func (r *Reader) typedField(m spec.Message, f Field, path string) {
	t := f.Tag
	v := &f.Val
	switch v.K {
	case "bool":
		if got, err := m.BoolErr(t); err != nil || got != v.BoolV() {
			r.errf(path, "m.BoolErr(%d) = (%v, %v)", t, got, err)
		}
	case "byte":
		if got, err := m.ByteErr(t); err != nil || got != v.ByteV() {
			r.errf(path, "m.ByteErr(%d) = (%v, %v)", t, got, err)
		}
	case "int16", "int32", "int64":
		if got, err := m.Int64Err(t); err != nil || got != v.Int64() {
			r.errf(path, "m.Int64Err(%d) = (%v, %v) want %d", t, got, err, v.Int64())
		}
	case "uint16", "uint32", "uint64":
		if got, err := m.Uint64Err(t); err != nil || got != v.Mag64() {
			r.errf(path, "m.Uint64Err(%d) = (%v, %v) want %d", t, got, err, v.Mag64())
		}
	case "float64":
		if got, err := m.Float64Err(t); err != nil || !sameF64(got, v.F64()) {
			r.errf(path, "m.Float64Err(%d) = (%v, %v)", t, got, err)
		}
	case "bytes":
		if got, err := m.BytesErr(t); err != nil || !bytes.Equal(got, v.Payload()) {
			r.errf(path, "m.BytesErr(%d) len %d err %v", t, len(got), err)
		}
	case "string":
		if got, err := m.StringErr(t); err != nil || string(got) != string(v.Payload()) {
			r.errf(path, "m.StringErr(%d) len %d err %v", t, len(got), err)
		}
	case "list":
		if got, err := m.ListErr(t); err != nil || got.Len() != len(v.Elems) {
			r.errf(path, "m.ListErr(%d) len %d err %v", t, got.Len(), err)
		}
	case "msg":
		if got, err := m.MessageErr(t); err != nil || got.Fields() != len(v.Fields) {
			r.errf(path, "m.MessageErr(%d) fields %d err %v", t, got.Fields(), err)
		}
	}
}
