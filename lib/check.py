#!/usr/bin/env python3
"""check <Cxx> <quick|thorough> [--replay path]   — single entry point of /verif (see DESIGN.md 2.5)."""
import importlib
import os
import sys
import traceback

sys.path.insert(0, os.path.dirname(os.path.abspath(__file__)))
from vlib.common import Ctx, Broken, write_evidence, say  # noqa: E402


def main():
    if len(sys.argv) < 3:
        print(__doc__)
        return 2
    prop, tier = sys.argv[1].upper(), sys.argv[2]
    replay = None
    if "--replay" in sys.argv:
        replay = sys.argv[sys.argv.index("--replay") + 1]
    if tier not in ("quick", "thorough"):
        print("tier must be quick or thorough")
        return 2
    seed = int(os.environ.get("VERIF_SEED", "1") or "1")
    ctx = Ctx(prop, tier, seed)
    try:
        mod = importlib.import_module("props." + prop.lower())
        if replay:
            mod.replay(ctx, replay)
        else:
            mod.run(ctx)
        path = write_evidence(ctx)
        for k in ctx.known_hits:
            say("KNOWN-FINDING: property=%s %s (%d occurrences this run)" % (prop, k["what"], k.get("_count", 0)))
        if ctx.violations:
            seen = set()
            for v in ctx.violations:
                if v["sig"] in seen:
                    continue
                seen.add(v["sig"])
                say("VIOLATION property=%s replay=%s  # %s" % (prop, v["replay"], v["what"][:300]))
            say("%s %s: %d violation(s); evidence %s" % (prop, tier, len(ctx.violations), path))
            return 1
        say("%s %s: ok; evidence %s" % (prop, tier, path))
        return 0
    except Broken as e:
        say("BROKEN %s %s: %s" % (prop, tier, e))
        return 2
    except Exception:
        traceback.print_exc()
        say("BROKEN %s %s: unexpected exception" % (prop, tier))
        return 2
    finally:
        ctx.cleanup()


if __name__ == "__main__":
    sys.exit(main())
