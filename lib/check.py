#!/usr/bin/env python3
"""check <Cxx> <quick|thorough> [--replay path]   — single entry point of /verif (see DESIGN.md 2.5)."""
import importlib
import os
import sys
import traceback

import re

sys.path.insert(0, os.path.dirname(os.path.abspath(__file__)))
from vlib.common import Ctx, Broken, write_evidence, say  # noqa: E402

# findings whose verdict rests on a wall-clock limit ("did not return within", "still open after", ...): on a loaded machine
# slowness can look like a hang, so they are reported only if they show up again in a second run of the check with
# time limits four times as long (a real hang, deadlock or missing reconnect does not go away with more time)
TIMING = re.compile(r"hang|timeout|stuck|stalled-not-released|blocked-want-admit|no-wait-event|no-reconnect|no-recovery|not-closed|not-started|"
                    r"handler-missing|handler-not-entered|handlers:|healthy|alive|recv-count|wrote:|conn-closed|sibling|channel-open|gate:|flag-not-visible|"
                    r"^dial:|handler-stream|no-response|stale-listed:failed|stream-lost|ok-lost")


def time_scale():
    """VERIF_TIMESCALE multiplies every wall-clock limit of the harnesses (harness/internal/tscale)."""
    if os.environ.get("VERIF_TIMESCALE"):
        return float(os.environ["VERIF_TIMESCALE"])
    try:
        load = os.getloadavg()[0] / (os.cpu_count() or 1)
    except OSError:
        load = 0.0
    return round(min(10.0, 1.5 + max(0.0, load - 0.5) * 3.0), 2)


def main():
    if len(sys.argv) < 3:
        print(__doc__)
        return 2
    prop, tier = sys.argv[1].upper(), sys.argv[2]
    replay = None
    if "--replay" in sys.argv:
        replay = sys.argv[sys.argv.index("--replay") + 1]
    if tier not in ("quick", "thorough"):
        print("tier must be quick or thorough")
        return 2
    seed = int(os.environ.get("VERIF_SEED", "1") or "1")
    scale = time_scale()
    os.environ["VERIF_TIMESCALE"] = str(scale)
    ctx = Ctx(prop, tier, seed)
    try:
        mod = importlib.import_module("props." + prop.lower())
        if replay:
            mod.replay(ctx, replay)
        else:
            mod.run(ctx)
            timing = [v for v in ctx.violations if TIMING.search(v["sig"])]
            if timing:
                say("%s %s: %d finding(s) depend on a time limit (%s); confirming with limits x4"
                    % (prop, tier, len(timing), ", ".join(sorted({v["sig"] for v in timing}))[:300]))
                os.environ["VERIF_TIMESCALE"] = str(min(20.0, scale * 4))
                ctx2 = Ctx(prop, tier, seed)
                ctx2.replay_prefix = "confirm-"
                try:
                    mod.run(ctx2)
                    again = {v["sig"] for v in ctx2.violations}
                finally:
                    ctx2.cleanup()
                    os.environ["VERIF_TIMESCALE"] = str(scale)
                kept = [v for v in ctx.violations if not TIMING.search(v["sig"]) or v["sig"] in again]
                ctx.coverage["timing_findings_not_reproduced_with_longer_limits"] = sorted({v["sig"] for v in ctx.violations} - {v["sig"] for v in kept})
                ctx.violations = kept
            ctx.coverage["time_scale"] = scale
        path = write_evidence(ctx)
        for k in ctx.known_hits:
            say("KNOWN-FINDING: property=%s %s (%d occurrences this run)" % (prop, k["what"], k.get("_count", 0)))
        if ctx.violations:
            seen = set()
            for v in ctx.violations:
                if v["sig"] in seen:
                    continue
                seen.add(v["sig"])
                say("VIOLATION property=%s replay=%s  # %s" % (prop, v["replay"], v["what"][:300]))
            say("%s %s: %d violation(s); evidence %s" % (prop, tier, len(ctx.violations), path))
            return 1
        say("%s %s: ok; evidence %s" % (prop, tier, path))
        return 0
    except Broken as e:
        if ctx.crashes:
            # a driver died inside the library: that is behaviour of the code under test
            for c in ctx.crashes:
                ctx.violation("crash:" + c["reason"][:100], "the driver %s died: %s; library frames: %s"
                              % (c["driver"], c["reason"], " <- ".join(c["frames"])[:500]), c)
            ctx.coverage.setdefault("note", "the run ended early: a driver process crashed inside the library")
            path = write_evidence(ctx)
            for v in ctx.violations[:5]:
                say("VIOLATION property=%s replay=%s  # %s" % (prop, v["replay"], v["what"][:300]))
            say("%s %s: %d violation(s); evidence %s" % (prop, tier, len(ctx.violations), path))
            return 1
        say("BROKEN %s %s: %s" % (prop, tier, e))
        return 2
    except Exception:
        traceback.print_exc()
        say("BROKEN %s %s: unexpected exception" % (prop, tier))
        return 2
    finally:
        ctx.cleanup()


if __name__ == "__main__":
    sys.exit(main())
