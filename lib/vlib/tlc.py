"""TLC runner: every run happens in a scratch copy of /verif/spec with its own -metadir and a timeout."""
import glob
import os
import re
import shutil
import subprocess
import time

from .common import SPEC_DIR, NCPU, Broken

JAR = "/opt/veriftools/tla/tla2tools.jar:/opt/veriftools/tla/CommunityModules-deps.jar"


class TlcResult:
    def __init__(self):
        self.ok = False            # finished without error
        self.violated = None       # name of violated invariant/property, if any
        self.generated = 0
        self.distinct = 0
        self.depth = 0
        self.out = ""
        self.outfile = None
        self.wall = 0.0
        self.coverage = {}         # action -> (distinct, total)  (only with coverage=True)
        self.postcondition_failed = False
        self.errtext = ""


def stage(workdir, extra_files=None):
    """Copies all modules and configs into workdir (TLC litters its cwd)."""
    os.makedirs(workdir, exist_ok=True)
    for f in glob.glob(os.path.join(SPEC_DIR, "*.tla")) + glob.glob(os.path.join(SPEC_DIR, "*.cfg")):
        shutil.copy(f, workdir)
    for name, text in (extra_files or {}).items():
        with open(os.path.join(workdir, name), "w") as fh:
            fh.write(text)


def run_tlc(workdir, module, cfg, *, workers=None, timeout=600, simulate=None, depth=None,
            seed=None, coverage=False, dfs=False, heap="8g", extra=None, extra_files=None,
            out_name="tlc.out", deadlock=False, defines=None):
    """Runs TLC. Output goes to workdir/out_name (can be large: PrintT lines).
    Returns TlcResult; raises Broken on timeout / JVM failure / parse errors."""
    stage(workdir, extra_files)
    meta = os.path.join(workdir, "meta-" + out_name)
    java = ["java", "-XX:+UseParallelGC", "-Xmx" + heap, "-Xss256m", "-Dfile.encoding=UTF-8"]
    if dfs:
        java.append("-Dtlc2.tool.queue.IStateQueue=StateDeque")
    for k, v in (defines or {}).items():
        java.append("-D%s=%s" % (k, v))
    cmd = java + ["-cp", JAR, "tlc2.TLC", "-metadir", meta, "-config", cfg,
                  "-workers", str(workers or NCPU), "-noGenerateSpecTE"]
    if not deadlock:
        cmd.append("-deadlock")   # -deadlock disables deadlock checking
    if simulate:
        cmd += ["-simulate", simulate]
    if depth:
        cmd += ["-depth", str(depth)]
    if seed is not None:
        cmd += ["-seed", str(seed)]
    if coverage:
        cmd += ["-coverage", "1"]
    cmd += list(extra or [])
    cmd.append(module)
    outpath = os.path.join(workdir, out_name)
    t0 = time.time()
    env = dict(os.environ)
    env.pop("JAVA_TOOL_OPTIONS", None)
    with open(outpath, "w") as fh:
        try:
            p = subprocess.run(cmd, cwd=workdir, stdout=fh, stderr=subprocess.STDOUT, timeout=timeout, env=env)
        except subprocess.TimeoutExpired:
            raise Broken("TLC timeout (%ss) on %s/%s" % (timeout, module, cfg))
    r = TlcResult()
    r.wall = time.time() - t0
    r.outfile = outpath
    shutil.rmtree(meta, ignore_errors=True)
    # parse only the non-payload lines (payload lines are JSON and can be huge)
    keep = []
    with open(outpath, errors="replace") as fh:
        for line in fh:
            if line.startswith('"') or line.startswith("{") or line.startswith("["):
                continue
            keep.append(line)
    text = "".join(keep)
    r.out = text[-20000:]
    m = None
    for m in re.finditer(r"(\d+) states generated, (\d+) distinct states found", text):
        pass
    if m:
        r.generated, r.distinct = int(m.group(1)), int(m.group(2))
    m = re.search(r"The depth of the complete state graph search is (\d+)", text)
    if m:
        r.depth = int(m.group(1))
    if coverage:
        for m in re.finditer(r"^<(\w+) line \d+, col \d+ to line \d+, col \d+ of module \w+>: (\d+):(\d+)", text, re.M):
            a, d, t = m.group(1), int(m.group(2)), int(m.group(3))
            pd, pt = r.coverage.get(a, (0, 0))
            r.coverage[a] = (pd + d, pt + t)
    m = re.search(r"Invariant (\w+) is violated", text)
    if m:
        r.violated = m.group(1)
    m = re.search(r"Action property (\w+) is violated|Temporal properties were violated", text)
    if m and not r.violated:
        r.violated = m.group(1) or "temporal"
    if "Deadlock reached" in text and not r.violated:
        r.violated = "Deadlock"
    if re.search(r"The postcondition .* is violated|Postcondition .* violated|POSTCONDITION", text) and "violated" in text:
        if re.search(r"postcondition", text, re.I) and re.search(r"violated", text, re.I):
            r.postcondition_failed = bool(re.search(r"[Pp]ostcondition[^\n]*(violated|false)", text))
    finished = "Model checking completed. No error has been found." in text or \
               (simulate and p.returncode == 0)
    if "Error:" in text or "Exception" in text:
        em = re.search(r"Error:.*", text, re.S)
        r.errtext = (em.group(0) if em else text)[-3000:]
    r.ok = bool(finished) and not r.violated and not r.postcondition_failed
    r.returncode = p.returncode
    return r


def require_ok(r, what):
    """A TLC failure on the specification alone is never a verdict about the code (DESIGN 2.5)."""
    if not r.ok:
        raise Broken("TLC did not pass %s (violated=%s rc=%s):\n%s" % (what, r.violated, getattr(r, "returncode", "?"), r.out[-3000:]))


def payload_lines(path):
    """Yields the JSON payload lines TLC printed with PrintT(ToJson(..)): each is a quoted JSON string or raw JSON."""
    import json
    with open(path, errors="replace") as fh:
        for line in fh:
            if not line:
                continue
            c = line[0]
            if c == '"':
                try:
                    s = json.loads(line)
                    yield json.loads(s)
                except Exception:
                    raise Broken("malformed TLC payload line: %r" % line[:200])
            elif c in "{[":
                try:
                    yield json.loads(line)
                except Exception:
                    raise Broken("malformed TLC payload line: %r" % line[:200])
