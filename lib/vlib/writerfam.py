"""Writer family (C01 C08 C12 C18w): TLC generates writer programs from Writer.tla, wprog replays them."""
import json
import os

from .common import Broken, VERIF
from . import tlc


def gen(ctx, cfg, name, timeout=900, simulate=None, depth=None):
    wd = ctx.scratch("tlc-" + name)
    r = tlc.run_tlc(wd, "WriterMC.tla", cfg, timeout=timeout, out_name=name + ".out",
                    simulate=simulate, depth=depth, seed=ctx.seed if simulate else None, heap="12g")
    tlc.require_ok(r, "Writer/" + cfg)
    return r


def replay(ctx, path, variants, read=True, every=1, timeout=900):
    binp = ctx.go_build("wprog")
    cmd = [binp, "-in", path, "-variants", ",".join(variants), "-seed", str(ctx.seed),
           "-read=%s" % ("true" if read else "false"), "-every", str(every)]
    p = ctx.run(cmd, timeout=timeout)
    if p.returncode != 0:
        raise Broken("wprog failed rc=%s: %s" % (p.returncode, p.stderr[-2000:]))
    mism, summary = [], None
    for line in p.stdout.splitlines():
        if not line.strip():
            continue
        d = json.loads(line)
        if "summary" in d:
            summary = d["summary"]
        else:
            mism.append(d)
    if summary is None:
        raise Broken("wprog printed no summary")
    if summary["programs"] == 0:
        raise Broken("wprog replayed no programs from %s (dead generator)" % path)
    return summary, mism


def sample_programs(path, n=3):
    out = []
    for rec in tlc.payload_lines(path):
        ops = []
        for op in rec["prog"]:
            s = op["op"]
            if "tag" in op:
                s += "(%s)" % op["tag"]
            if "val" in op:
                v = op["val"]
                s += ":" + v["k"] + (("[fill=%d]" % v["fill"]) if "fill" in v else "")
            if "n" in op:
                s += "x%d" % op["n"]
            s += "->" + op["exp"]["ret"] + "/" + op["exp"]["err"]
            ops.append(s)
        b = rec.get("built") or []
        out.append({"program": ops, "built_len": len(b), "built_tail": b[-8:]})
        if len(out) >= n:
            break
    return out


def golden_path():
    return os.path.join(VERIF, "golden", "writer_golden.out")
