"""Channel traces (C03, C09): mtraffic records API-level traces from real client/server runs; TLC validates them against
MpxChanTrace.tla (internal Commit steps placed by TLC, high-water-mark acceptance)."""
import json
import os
import re

from .common import Broken
from . import tlc

CFG = """SPECIFICATION TSpec
CONSTANTS
  Chans = {1, 2, 3, 4, 5, 6}
  Dirs = {"c2s", "s2c"}
  TraceFile = "%s"
CONSTRAINT HighWater
INVARIANTS PrefixOrder DrainBeforeEnd
POSTCONDITION Accepted
CHECK_DEADLOCK FALSE
"""


def record(ctx, name, runs, seed, cut=False, cutstep=7, timeout=1800, extra=()):
    binp = ctx.go_build("mtraffic")
    wd = ctx.scratch("trace-" + name)
    trace = os.path.join(wd, "trace.ndjson")
    cmd = [binp, "-out", trace, "-runs", str(runs), "-seed", str(seed)]
    if cut:
        cmd += ["-cut", "-cutstep", str(cutstep)]
    cmd += list(extra)
    p = ctx.run(cmd, timeout=timeout)
    if p.returncode != 0:
        raise Broken("mtraffic failed: %s" % p.stderr[-2000:])
    findings, summary = [], None
    for line in p.stdout.splitlines():
        d = json.loads(line)
        if "summary" in d:
            summary = d["summary"]
        else:
            findings.append(d)
    if not summary or summary["events"] == 0:
        raise Broken("mtraffic recorded nothing")
    return wd, trace, summary, findings


def annotate(trace):
    """Attaches to every sb event the receive rank of its message (k-th message received on that channel and direction
    in this run, 0 = never received).  A pure function of the trace; it only steers where TLC places Commit steps."""
    lines = [json.loads(l) for l in open(trace) if l.strip()]
    start = 0
    for i, e in enumerate(lines + [{"e": "reset"}]):
        if e["e"] != "reset":
            continue
        seg = lines[start:i]
        rank = {}
        count = {}
        for ev in seg:
            if ev["e"] == "rv":
                k = (ev["c"], ev["d"])
                count[k] = count.get(k, 0) + 1
                rank.setdefault((ev["c"], ev["d"], ev["m"]), count[k])
        for ev in seg:
            if ev["e"] == "sb":
                ev["rk"] = rank.get((ev["c"], ev["d"], ev["m"]), 0)
        start = i + 1
    with open(trace, "w") as fh:
        for e in lines:
            fh.write(json.dumps(e) + "\n")


def validate(ctx, wd, trace, timeout=1800):
    """Returns (TlcResult, rejected_at or None)."""
    annotate(trace)
    name = "chan.cfg"
    r = tlc.run_tlc(wd, "MpxChanTrace.tla", name, workers=1, dfs=True, timeout=timeout, heap="8g",
                    extra_files={name: CFG % os.path.basename(trace)}, out_name="validate.out", deadlock=True)
    text = open(r.outfile, errors="replace").read()
    m = re.search(r'<<"REJECTED_AT", (\d+), (\d+)>>', text)
    if m:
        return r, int(m.group(1))
    if "Model checking completed. No error has been found." in text:
        return r, None
    raise Broken("trace validation did not finish: %s" % text[-2000:])


def explain_rejection(trace, at):
    lines = open(trace).read().splitlines()
    lo = max(0, at - 25)
    # events of the same run and channel leading to the rejected one
    ev = json.loads(lines[at - 1]) if at - 1 < len(lines) else {}
    ctxt = []
    for l in lines[lo:at]:
        e = json.loads(l)
        if e.get("c") == ev.get("c") or e["e"] in ("reset", "fail"):
            ctxt.append(l)
    return ev, ctxt
