"""Wire family (C02 C10 C13 C16 + reading side of C01): TLC generates cases from WireGen.tla, wcase executes them."""
import json

from .common import Broken
from . import tlc


def gen(ctx, mode, level, timeout=1800):
    wd = ctx.scratch("tlc-%s-%d" % (mode, level))
    r = tlc.run_tlc(wd, "WireGen.tla", "WireGen_%s_%d.cfg" % (mode, level), timeout=timeout,
                    out_name="%s%d.out" % (mode, level), heap="12g")
    tlc.require_ok(r, "WireGen/%s/%d" % (mode, level))
    return r


def execute(ctx, path, every=1, timeout=1800):
    binp = ctx.go_build("wcase")
    p = ctx.run([binp, "-in", path, "-every", str(every), "-seed", str(ctx.seed)], timeout=timeout)
    if p.returncode != 0:
        raise Broken("wcase failed rc=%s: %s" % (p.returncode, p.stderr[-2000:]))
    mism, summary = [], None
    for line in p.stdout.splitlines():
        if not line.strip():
            continue
        d = json.loads(line)
        if "summary" in d:
            summary = d["summary"]
        else:
            mism.append(d)
    if summary is None or not summary["cases"]:
        raise Broken("wcase executed no cases from %s" % path)
    return summary, mism


def samples(path, n=3, keys=("mode", "how", "x", "enc", "v", "written", "reader", "spec")):
    out = []
    for rec in tlc.payload_lines(path):
        d = {k: rec[k] for k in keys if k in rec}
        for k in ("x", "enc"):
            if k in d and len(d[k]) > 40:
                d[k] = d[k][:20] + ["..."] + d[k][-16:]
        out.append(d)
        if len(out) >= n:
            break
    return out


def report(ctx, mism, props):
    """props: which 'prop' tags of wcase mismatches count for the calling property."""
    for m in mism:
        if m["prop"] == "harness":
            raise Broken("harness error: %s" % m["detail"])
        if m["prop"] in props:
            ctx.violation(m["sig"], "%s | input %s" % (m["detail"], m.get("input")), m)
