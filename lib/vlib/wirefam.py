"""Wire family (C02 C10 C13 C16 + reading side of C01): TLC generates cases from WireGen.tla, wcase executes them."""
import json
import os

from .common import Broken
from . import tlc


def gen(ctx, mode, level, timeout=1800):
    wd = ctx.scratch("tlc-%s-%d" % (mode, level))
    r = tlc.run_tlc(wd, "WireGen.tla", "WireGen_%s_%d.cfg" % (mode, level), timeout=timeout,
                    out_name="%s%d.out" % (mode, level), heap="12g")
    tlc.require_ok(r, "WireGen/%s/%d" % (mode, level))
    return r


CRASH = ("fatal error:", "goroutine stack exceeds", "stack overflow", "unexpected signal", "SIGSEGV", "SIGBUS")


def _run_wcase(ctx, binp, path, every, timeout):
    p = ctx.run([binp, "-in", path, "-every", str(every), "-seed", str(ctx.seed)], timeout=timeout)
    crashed = p.returncode != 0 and any(k in p.stderr for k in CRASH)
    return p, crashed


def execute(ctx, path, every=1, timeout=1800):
    """Runs wcase over the cases of a TLC output file.  A crash of the whole process (unbounded recursion, a fault outside
    the guarded calls) is a finding about the library, not about the harness: the input file is bisected down to the single
    case that kills the process, which is reported as a mismatch of property C02 with signature crash:<reason>."""
    binp = ctx.go_build("wcase")
    p, crashed = _run_wcase(ctx, binp, path, every, timeout)
    crash_mism = []
    if crashed:
        lines = [l for l in open(path, errors="replace") if l and l[0] in '"{']
        if every > 1:
            lines = [l for i, l in enumerate(lines) if (i + ctx.seed) % every == 0]
        wd = ctx.scratch("bisect")
        lo, hi = 0, len(lines)
        rounds = 0
        while hi - lo > 1 and rounds < 40:
            rounds += 1
            mid = (lo + hi) // 2
            part = os.path.join(wd, "part.out")
            with open(part, "w") as fh:
                fh.writelines(lines[lo:mid])
            _, c1 = _run_wcase(ctx, binp, part, 1, timeout)
            if c1:
                hi = mid
            else:
                lo = mid
        part = os.path.join(wd, "one.out")
        with open(part, "w") as fh:
            fh.writelines(lines[lo:hi])
        p1, c1 = _run_wcase(ctx, binp, part, 1, timeout)
        if not c1:
            raise Broken("wcase crashed on %s but no single case reproduces the crash: %s" % (path, p.stderr[-1500:]))
        reason = next((l.strip() for l in p1.stderr.splitlines() if any(k in l for k in CRASH)), "crash")
        try:
            rec = json.loads(json.loads(lines[lo]) if lines[lo][0] == '"' else lines[lo])
        except Exception:
            rec = {}
        frames = [l.strip() for l in p1.stderr.splitlines() if "github.com/basecomplextech/spec" in l][:6]
        crash_mism.append({"case": lo, "mode": rec.get("mode", "?"), "prop": "C02", "sig": "crash:" + reason[:80],
                           "detail": "the process died on this input: %s; %s" % (reason, " <- ".join(frames)[:600]),
                           "input": rec.get("x") or rec.get("enc")})
        # the rest of the file without the killer, so that other findings are still reported
        rest = os.path.join(wd, "rest.out")
        with open(rest, "w") as fh:
            fh.writelines(lines[:lo] + lines[hi:])
        p, crashed = _run_wcase(ctx, binp, rest, 1, timeout)
        if crashed:
            # more than one killer: report the one found, the verdict is a violation anyway
            return {"cases": {rec.get("mode", "?"): 1}, "accepted_by_parser": 0}, crash_mism
    if p.returncode != 0:
        raise Broken("wcase failed rc=%s: %s" % (p.returncode, p.stderr[-2000:]))
    mism, summary = [], None
    for line in p.stdout.splitlines():
        if not line.strip():
            continue
        d = json.loads(line)
        if "summary" in d:
            summary = d["summary"]
        else:
            mism.append(d)
    if summary is None or not summary["cases"]:
        raise Broken("wcase executed no cases from %s" % path)
    return summary, crash_mism + mism


def samples(path, n=3, keys=("mode", "how", "x", "enc", "v", "written", "reader", "spec")):
    out = []
    for rec in tlc.payload_lines(path):
        d = {k: rec[k] for k in keys if k in rec}
        for k in ("x", "enc"):
            if k in d and len(d[k]) > 40:
                d[k] = d[k][:20] + ["..."] + d[k][-16:]
        out.append(d)
        if len(out) >= n:
            break
    return out


def report(ctx, mism, props):
    """props: which 'prop' tags of wcase mismatches count for the calling property."""
    for m in mism:
        if m["prop"] == "harness":
            raise Broken("harness error: %s" % m["detail"])
        if m["prop"] in props:
            ctx.violation(m["sig"], "%s | input %s" % (m["detail"], m.get("input")), m)
