"""The rpc layer against a peer that is not the library's: RpcReply.tla (the caller against every sequence of reply frames,
replayed by mreply) and RpcRequest.tla (the server against every sequence of request / stream frames, replayed by mrequest)."""
import json

from .common import Broken
from . import tlc


def _play(ctx, binname, args, what):
    p = ctx.run([ctx.go_build(binname)] + args, timeout=1500)
    if p.returncode != 0:
        raise Broken("%s failed: %s" % (binname, p.stderr[-2000:]))
    summary, mism = None, []
    for line in p.stdout.splitlines():
        d = json.loads(line)
        if "summary" in d:
            summary = d["summary"]
        elif d["sig"] == "harness":
            raise Broken("%s: %s" % (binname, d["detail"]))
        else:
            mism.append(d)
    if not summary or (summary["scripts"] == 0 and not mism):
        raise Broken("%s played no %s" % (binname, what))
    return summary, mism


def run_reply(ctx):
    wd = ctx.scratch("rpcreply")
    rs = tlc.run_tlc(wd, "RpcReply.tla", "RpcReply_skipbad.cfg", timeout=300, workers=2, out_name="skipbad.out")
    if rs.violated != "OkOnlyIfClean":
        raise Broken("RpcReply_skipbad: a caller that passes over malformed frames does not break OkOnlyIfClean: the model is vacuous")
    n = 3 if ctx.quick() else 4
    r = tlc.run_tlc(wd, "RpcReply.tla", "RpcReply_%d.cfg" % n, timeout=900, workers=4, out_name="reply%d.out" % n, heap="4g")
    tlc.require_ok(r, "RpcReply/%d" % n)
    summary, mism = _play(ctx, "mreply", ["-in", r.outfile, "-seed", str(ctx.seed)], "sequences")
    for d in mism:
        ctx.violation("reply:" + d["sig"], "%s | frames: %s" % (d["detail"], d["script"]), d)
    return r, summary, n


def run_request(ctx):
    wd = ctx.scratch("rpcrequest")
    rs = tlc.run_tlc(wd, "RpcRequest.tla", "RpcRequest_sticky.cfg", timeout=300, workers=2, out_name="sticky.out")
    if rs.violated != "ReadsOn":
        raise Broken("RpcRequest_sticky: a server on which unparsable bytes end the stream does not break ReadsOn: the model is vacuous")
    n = 4 if ctx.quick() else 6
    r = tlc.run_tlc(wd, "RpcRequest.tla", "RpcRequest_%d.cfg" % n, timeout=900, workers=4, out_name="request%d.out" % n, heap="4g")
    tlc.require_ok(r, "RpcRequest/%d" % n)
    summary, mism = _play(ctx, "mrequest", ["-in", r.outfile], "sequences")
    for d in mism:
        ctx.violation("request:" + d["sig"], "%s | frames: %s" % (d["detail"], d["script"]), d)
    return r, summary, n
