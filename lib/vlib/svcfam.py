"""Scripts of single RPC calls (SvcCall.tla): TLC enumerates every interleaving of the caller's and the handler's API
operations in which nothing waits for a later step, checks that each is a history Rpc.tla allows (refinement), and the scripts
are executed step by step on the rpc layer (msvc, C04) and through generated service code (C05)."""
import json

from vlib import tlc
from vlib.common import Broken


def scripts(ctx, deep=False, drop=False, free=False):
    """Returns (TlcResult of the exhaustive run, [script files]).  drop: also the scripts in which the connection is lost at some
    point of the call (a proxy between client and server cuts it).  free: also the scripts in which a second goroutine frees
    a streaming call while the first one waits in Response."""
    r = tlc.run_tlc(ctx.scratch("svccall"), "SvcCall.tla", "SvcCall.cfg", timeout=1800, workers=8, out_name="svccall.out", heap="4g")
    tlc.require_ok(r, "SvcCall")
    rf = tlc.run_tlc(ctx.scratch("svccall-faulty"), "SvcCall.tla", "SvcCall_faulty.cfg", timeout=600, workers=2, out_name="svcf.out", heap="2g")
    if "RefinesRpc is violated" not in rf.out and rf.violated != "RefinesRpc":
        raise Broken("SvcCall with a stream end nobody sent still refines Rpc: the refinement check is vacuous")
    files = [r.outfile]
    if drop:
        rd = tlc.run_tlc(ctx.scratch("svccall-drop"), "SvcCall.tla", "SvcCall_drop.cfg", timeout=1800, workers=8, out_name="svcdrop.out", heap="6g")
        tlc.require_ok(rd, "SvcCall (lost connection)")
        files.append(rd.outfile)
    if free:
        rf2 = tlc.run_tlc(ctx.scratch("svccall-free"), "SvcCall.tla", "SvcCall_free.cfg", timeout=1800, workers=8, out_name="svcfree.out", heap="6g")
        tlc.require_ok(rf2, "SvcCall (free while waiting)")
        files.append(rf2.outfile)
    if deep:
        rs = tlc.run_tlc(ctx.scratch("svccall-sim"), "SvcCall.tla", "SvcCall_sim.cfg", timeout=1800, workers=1, out_name="svcsim.out", heap="4g",
                         simulate="num=3000", depth=40, seed=ctx.seed)
        tlc.require_ok(rs, "SvcCall (simulation)")
        files.append(rs.outfile)
    return r, files


def run_rpc(ctx, files, limit, limit_rest=None):
    """limit applies to the first file (0 = all), limit_rest (default: limit) to the others."""
    binp = ctx.go_build("msvc")
    total = {"scripts": 0, "steps": 0, "of": 0, "by_kind": {}}
    for k, f in enumerate(files):
        lim = limit if k == 0 or limit_rest is None else limit_rest
        p = ctx.run([binp, "-in", f, "-limit", str(lim), "-seed", str(ctx.seed)], timeout=3000)
        if p.returncode != 0:
            raise Broken("msvc failed: %s" % p.stderr[-2000:])
        summary = None
        for line in p.stdout.splitlines():
            if not line.startswith("{"):
                continue
            d = json.loads(line)
            if "summary" in d:
                summary = d["summary"]
            elif d["sig"] == "harness":
                raise Broken("msvc: " + d["detail"])
            else:
                ctx.violation("script:" + d["sig"], "%s | script: %s" % (d["detail"], d.get("sched", "")), d)
        if not summary or summary["scripts"] == 0:
            raise Broken("msvc executed nothing")
        for k in ("scripts", "steps", "of"):
            total[k] += summary[k]
        total["lost"] = total.get("lost", 0) + summary.get("lost", 0)
        for k, v in summary["by_kind"].items():
            total["by_kind"][k] = total["by_kind"].get(k, 0) + v
    return total
