"""MpxServer scripts (C11, handler half of C20): TLC enumerates peer scripts, mserve plays them against a real server."""
import json

from .common import Broken
from . import tlc


def run_scripts(ctx, steps, timeout=1500, lz4=False):
    wd = ctx.scratch("mserver-%d" % steps)
    r = tlc.run_tlc(wd, "MpxServer.tla", "MpxServer_%d.cfg" % steps, timeout=timeout, workers=8, out_name="s%d.out" % steps, heap="6g")
    tlc.require_ok(r, "MpxServer/%d" % steps)
    binp = ctx.go_build("mserve")
    mism, summary = [], None
    # every script twice: plain, and with lz4 negotiated by the well-formed connect request (frames inside the lz4 stream)
    # ... and a third time with the peer not reading, while a handler streams to it, when the hostile input arrives
    for extra in ([], ["-lz4"], ["-stall"]) if lz4 else ([],):
        p = ctx.run([binp, "-in", r.outfile, "-workers", "8"] + extra, timeout=timeout)
        if p.returncode != 0:
            raise Broken("mserve failed: %s" % p.stderr[-2000:])
        one = None
        for line in p.stdout.splitlines():
            d = json.loads(line)
            if "summary" in d:
                one = d["summary"]
            else:
                if extra:
                    d["sig"] = d.get("sig", "") + "(%s)" % extra[0][1:]
                mism.append(d)
        if not one or one["scripts"] == 0:
            raise Broken("mserve played no scripts")
        if summary is None:
            summary = one
        else:
            summary["scripts_" + extra[0][1:]] = one["scripts"]
    samples = []
    for rec in tlc.payload_lines(r.outfile):
        samples.append([{k: v for k, v in st.items() if k != "pred"} | {"alive_after": st["pred"]["alive"]} for st in rec["script"]])
        if len(samples) >= 3:
            break
    return r, summary, mism, samples


HANDLER_SIGS = ("handlers:", "late-event", "handlers-not-released")
