"""Schema-language family (C05, C14): records of SchemaSem.tla -> real `spec generate` -> go build -> generated code driven by
lgenrt with the values of the records.  The specification says which schemas are valid (Violations(world) = {}), which rule a
mutant breaks and at which element, and what every accepted message/struct/enum means on the wire."""
import concurrent.futures as cf
import json
import os
import re
import shutil
import subprocess

from vlib import tlc
from vlib.common import Broken, HARNESS, REPO, go_env

TLC_JAVA_HEAP = "6g"


def records(ctx, family, simulate=None, depth=None, seed=None, max_fields=None, limit=None):
    """Runs TLC on SchemaSem.tla for one family, returns (tlc result, list of records).
    In simulation mode TLC evaluates the emitting constraint on every successor it generates, not only on the states of the
    walk: records are de-duplicated and, with limit, a seeded sample of that many is kept."""
    cfg = "SchemaSem_%s.cfg" % family
    extra = None
    if max_fields is not None:
        text = open(os.path.join(os.path.dirname(HARNESS), "spec", cfg)).read()
        text = re.sub(r"MaxFields = \d+", "MaxFields = %d" % max_fields, text)
        cfg = "SchemaSem_%s_%d.cfg" % (family, max_fields)
        extra = {cfg: text}
    wd = ctx.scratch("sem-%s-%s" % (family, seed if seed is not None else "x"))
    r = tlc.run_tlc(wd, "SchemaSem.tla", cfg, timeout=1800, workers=1 if simulate else 4,
                    simulate=("num=%d" % simulate) if simulate else None, depth=depth, seed=seed,
                    out_name="sem.out", heap=TLC_JAVA_HEAP, extra_files=extra)
    if simulate:
        if r.violated or "Error:" in r.out:
            raise Broken("SchemaSem/%s simulation failed: %s" % (family, r.out[-1500:]))
    else:
        tlc.require_ok(r, "SchemaSem/" + cfg)
    recs = []
    seen = set()
    for rec in tlc.payload_lines(r.outfile):
        key = json.dumps([rec["pkgs"], (rec.get("evolve") or {}).get("pkgs")], sort_keys=True)
        if key not in seen:
            seen.add(key)
            recs.append(rec)
    if not recs:
        raise Broken("SchemaSem/%s produced no records" % family)
    if limit and len(recs) > limit:
        import random
        rng = random.Random(int(seed or 0) * 7919 + len(recs))
        recs = rng.sample(recs, limit)
    return r, recs


def render(tokens, case_id):
    out = []
    line = []
    for t in tokens:
        if isinstance(t, dict) and "raw" in t:
            line.append(t["raw"])       # text that is not a token of the language (family lexical), verbatim
        elif isinstance(t, dict):
            line.append(json.dumps(t["str"].replace("CASE", case_id)))
        else:
            line.append(t)
        if isinstance(t, dict):
            continue
        if t in (";", "{", "}") or (t == ")" and len(line) > 0 and line[0] in ("import", "options", ")")):
            out.append(" ".join(line))
            line = []
    if line:
        out.append(" ".join(line))
    return "\n".join(out) + "\n"


def label(rec):
    if rec.get("evolve_link"):
        rec = dict(rec)
        link = rec.pop("evolve_link")
        return label(rec) + " -> version B by [" + ", ".join(link["edits"]) + "]"
    if rec["verdict"] == "reject":
        return "mutant %s at %s" % (rec["rule"], rec["name"])
    fs = []
    for p in rec["pkgs"][:1]:
        for f in p["files"]:
            for d in f["ast"]["defs"]:
                if d["name"] == "Rec":
                    fs = ["%s %s %s" % (x["name"], type_str(x["type"]), x["lit"]) for x in d["fields"]]
    return "%s import=%s files=%d svc=%s Rec{%s}" % (rec["verdict"], rec["shape"], rec["nfiles"], rec["svc"], "; ".join(fs))


def type_str(t):
    k = t["k"]
    if k == "base" or k == "ref":
        return t["name"]
    if k == "imp":
        return t["pkg"] + "." + t["name"]
    if k == "list":
        return "[]" + type_str(t["elem"])
    return k


class Pipeline:
    def __init__(self, ctx, name):
        self.ctx = ctx
        self.root = ctx.scratch("lang-" + name)
        self.src = os.path.join(self.root, "src")
        self.gen = os.path.join(self.root, "gen")
        os.makedirs(self.src, exist_ok=True)
        os.makedirs(self.gen, exist_ok=True)
        self.cli = os.path.join(self.root, "spec-cli")
        p = subprocess.run(["go", "build", "-o", self.cli, "./cmd/spec"], cwd=REPO, env=go_env(), capture_output=True, text=True)
        if p.returncode != 0:
            raise Broken("cannot build cmd/spec: %s" % (p.stdout + p.stderr)[-2000:])
        self.cases = []
        self.svc_scripts = None         # (file with scripts of SvcCall.tla, limit, seed): services of family svc are executed

    # ---- step 1: sources and the real compiler --------------------------------------------
    def add(self, recs):
        # an evolve record (C16) carries two versions of the schema: version B becomes a case of its own, linked from A
        flat = []
        for rec in recs:
            ev = rec.get("evolve") or {}
            if ev.get("pkgs"):
                b = {"verdict": "accept", "rule": "", "name": "", "shape": rec["shape"], "nfiles": 1, "svc": False,
                     "pkgs": ev["pkgs"], "sem": ev["sem"], "names": rec["names"], "version_b_of": True}
                rec["evolve_link"] = {"fields": ev["fields"], "runs": ev["runs"], "edits": ev["edits"], "b": b}
                flat += [rec, b]
            else:
                flat.append(rec)
            rec.pop("evolve", None)
        recs = flat
        base = len(self.cases)
        for i, rec in enumerate(recs):
            cid = "c%05d" % (base + i)
            rec["id"] = cid
            rec["label"] = label(rec)
            for p in rec["pkgs"]:
                d = os.path.join(self.src, cid, p["id"])
                os.makedirs(d, exist_ok=True)
                for f in p["files"]:
                    with open(os.path.join(d, f["name"]), "w") as fh:
                        fh.write(render(f["tokens"], cid))
            self.cases.append({"rec": rec, "id": cid})

    def _generate(self, cid, pkg, skip_rpc, out_root):
        cmd = [self.cli, "generate", "-i", os.path.join(self.src, cid)]
        if skip_rpc:
            cmd.append("--skip-rpc")
        cmd += [os.path.join(self.src, cid, pkg), os.path.join(out_root, cid, pkg)]
        try:
            p = subprocess.run(cmd, capture_output=True, text=True, timeout=30, cwd=self.root)
            return p.returncode, (p.stdout + p.stderr)
        except subprocess.TimeoutExpired:
            return None, "timeout after 30 s"

    def compile_all(self):
        def work(c):
            rec = c["rec"]
            skip = not rec["svc"]
            c["inplace_ok"] = True
            if rec["verdict"] == "accept":
                # the output directory already holds the output of a LARGER version of the package (same file names):
                # generating must replace it completely
                pid = rec["pkgs"][0]["id"]
                pad = os.path.join(self.root, "srcpad", c["id"])
                shutil.copytree(os.path.join(self.src, c["id"]), pad)
                first = os.path.join(pad, pid, rec["pkgs"][0]["files"][0]["name"])
                with open(first, "a") as fh:
                    fh.write("\nmessage ZzPadding {\n" + "".join("  pad_%d []string %d;\n" % (k, k) for k in range(1, 40)) + "}\n")
                cmdp = [self.cli, "generate", "-i", pad] + (["--skip-rpc"] if skip else []) + [os.path.join(pad, pid), os.path.join(self.gen, c["id"], pid)]
                pp = subprocess.run(cmdp, capture_output=True, text=True, timeout=30, cwd=self.root)
                c["pad_exit"] = pp.returncode
                shutil.rmtree(pad, ignore_errors=True)
            c["exit"], c["stderr"] = self._generate(c["id"], rec["pkgs"][0]["id"], skip, self.gen)
            c["dep_fail"] = None
            if c["exit"] == 0:
                for p in rec["pkgs"][1:]:
                    e, s = self._generate(c["id"], p["id"], True, self.gen)
                    if e != 0:
                        c["dep_fail"] = (p["id"], e, s)
                # regenerating from the same sources yields identical files
                g2 = os.path.join(self.root, "gen2")
                e2, _ = self._generate(c["id"], rec["pkgs"][0]["id"], skip, g2)
                a = os.path.join(self.gen, c["id"], rec["pkgs"][0]["id"])
                b = os.path.join(g2, c["id"], rec["pkgs"][0]["id"])
                # (a: generated in place over the larger version; b: generated into an empty directory)
                c["deterministic"] = e2 == 0 and sorted(os.listdir(a)) == sorted(os.listdir(b)) and all(
                    open(os.path.join(a, n), "rb").read() == open(os.path.join(b, n), "rb").read() for n in os.listdir(a))
                shutil.rmtree(os.path.join(g2, c["id"]), ignore_errors=True)
            return c
        with cf.ThreadPoolExecutor(max_workers=16) as ex:
            list(ex.map(work, self.cases))

    # ---- step 2: the Go compiler on everything that was generated -------------------------
    def go_build(self, drive):
        with open(os.path.join(self.gen, "go.mod"), "w") as fh:
            fh.write("module gen\n\ngo 1.24\n\nrequire (\n\tgithub.com/basecomplextech/spec v0.0.0\n\tverifharness v0.0.0\n)\n\n"
                     "replace github.com/basecomplextech/spec => %s\n\nreplace verifharness => %s\n" % (REPO, HARNESS))
        shutil.copy(os.path.join(REPO, "go.sum"), os.path.join(self.gen, "go.sum"))
        generated = [c for c in self.cases if c["exit"] == 0]
        if drive:
            for c in generated:
                if c["rec"]["verdict"] == "accept" and not c["dep_fail"]:
                    self._write_registry(c)
        for c in self.cases:
            c["build_errors"] = {}
        if not generated:
            return
        p = subprocess.run(["go", "build", "./..."], cwd=self.gen, env=go_env(), capture_output=True, text=True, timeout=3000)
        cur = None
        for line in (p.stdout + p.stderr).splitlines():
            m = re.match(r"# gen/(c\d+)/(\S+)", line)
            if m:
                cur = (m.group(1), m.group(2))
                continue
            m2 = re.match(r"(c\d+)/([^/\s]+)/\S+\.go:\d+", line)
            if m2:
                cur = (m2.group(1), m2.group(2))
            if cur:
                byid = self.cases[int(cur[0][1:])]
                byid["build_errors"].setdefault(cur[1], []).append(line)
        if p.returncode != 0 and not any(c["build_errors"] for c in self.cases):
            raise Broken("go build of the generated module failed outside the generated packages: %s" % (p.stdout + p.stderr)[-3000:])

    def _write_registry(self, c):
        rec = c["rec"]
        cid = c["id"]
        lines = ["package reg", "", "import ("]
        for p in rec["pkgs"]:
            lines.append('\t%s "gen/%s/%s"' % (p["id"], cid, p["id"]))
        lines += ['\t"verifharness/lgenrt"', ")", "", "func init() {", '\tlgenrt.Register("%s", map[string]any{' % cid]
        for p in rec["pkgs"]:
            pid = p["id"]
            seen = set()
            for f in p["files"]:
                for d in f["ast"]["defs"]:
                    n = d["name"]
                    if n in seen:
                        continue
                    seen.add(n)
                    if d["t"] == "message":
                        names = ["New%sWriter" % n, "New%sWriterBuffer" % n, "Parse%s" % n, "Open%s" % n, "Open%sErr" % n, "New%s" % n]
                    elif d["t"] == "struct":
                        names = ["Decode%s" % n, "Encode%sTo" % n, "Open%s" % n]
                    elif d["t"] == "enum":
                        names = ["Decode%s" % n, "Encode%sTo" % n, "Open%s" % n]
                    else:
                        names = []
                    for x in names:
                        lines.append('\t\t"%s.%s": %s.%s,' % (pid, x, pid, x))
        # messages generated for method arguments / results are not definitions of the schema
        declared = {d["name"] for f in rec["pkgs"][0]["files"] for d in f["ast"]["defs"]}
        pid0 = rec["pkgs"][0]["id"]
        for m in rec["sem"]["msgs"]:
            if m["msg"] not in declared:
                for x in ("New%sWriter", "New%sWriterBuffer", "Parse%s", "Open%s"):
                    lines.append('\t\t"%s.%s": %s.%s,' % (pid0, x % m["msg"], pid0, x % m["msg"]))
        for e in rec["sem"]["enums"]:
            for v in e["values"]:
                lines.append('\t\t"%s.%s": %s.%s,' % (rec["pkgs"][0]["id"], v["go"], rec["pkgs"][0]["id"], v["go"]))
        lines += ["\t})", "}", ""]
        d = os.path.join(self.gen, cid, "reg")
        os.makedirs(d, exist_ok=True)
        with open(os.path.join(d, "reg.go"), "w") as fh:
            fh.write("\n".join(lines))
        if rec.get("svc") and rec["verdict"] == "accept" and self.svc_scripts:
            self._write_svc(c, d)

    def _write_svc(self, c, d):
        """The service run of an accepted schema with services (family svc): the generated interfaces implemented on the
        script engine.  The out-message type of the streaming method is the imported message when the schema imports pkgb."""
        rec = c["rec"]
        tmpl = open(os.path.join(HARNESS, "lgenrt", "svc.go.tmpl")).read()
        if rec["shape"] == "none":
            sub = {"@EXTIMPORT@": "", "@EXTTYPE@": "pkga.Sub", "@EXTOPEN@": "pkga.OpenSub"}
        else:
            sub = {"@EXTIMPORT@": '\tpkgb "gen/%s/pkgb"' % c["id"], "@EXTTYPE@": "pkgb.Ext", "@EXTOPEN@": "pkgb.OpenExt"}
        sub["@CID@"] = c["id"]
        for k, v in sub.items():
            tmpl = tmpl.replace(k, v)
        with open(os.path.join(d, "svc.go"), "w") as fh:
            fh.write(tmpl)
        c["svc_run"] = True

    # ---- step 3: drive the generated code -------------------------------------------------
    def drive(self):
        ok = [c for c in self.cases if c["exit"] == 0 and c["rec"]["verdict"] == "accept" and not c["dep_fail"] and not c["build_errors"]]
        for c in self.cases:
            c["findings"] = []
        if not ok:
            return {"cases": 0, "checks": 0}
        d = os.path.join(self.gen, "cmd", "run")
        os.makedirs(d, exist_ok=True)
        with open(os.path.join(d, "main.go"), "w") as fh:
            fh.write("package main\n\nimport (\n\t\"verifharness/lgenrt\"\n")
            for c in ok:
                fh.write('\t_ "gen/%s/reg"\n' % c["id"])
            fh.write(")\n\nfunc main() { lgenrt.Main() }\n")
        binp = os.path.join(self.root, "run-generated")
        p = subprocess.run(["go", "build", "-o", binp, "./cmd/run"], cwd=self.gen, env=go_env(), capture_output=True, text=True, timeout=3000)
        if p.returncode != 0:
            raise Broken("cannot build the driver of the generated code: %s" % (p.stdout + p.stderr)[-3000:])
        cases_file = os.path.join(self.root, "cases.ndjson")
        okids = {c["id"] for c in ok}
        with open(cases_file, "w") as fh:
            for c in ok:
                r = c["rec"]
                out = {"id": c["id"], "label": r["label"], "pkgs": [
                    {"id": p_["id"], "files": [{"name": f["name"], "ast": f["ast"]} for f in p_["files"]]} for p_ in r["pkgs"]],
                    "names": r["names"], "sem": r["sem"]}
                link = r.get("evolve_link")
                if link and link["b"].get("id") in okids:
                    out["evolve"] = {"other": link["b"]["id"], "fields": link["fields"], "runs": link["runs"], "edits": link["edits"]}
                fh.write(json.dumps(out) + "\n")
        args = [binp, cases_file]
        if self.svc_scripts:
            args += [self.svc_scripts[0], str(self.svc_scripts[1]), str(self.svc_scripts[2])]
        p = subprocess.run(args, capture_output=True, text=True, timeout=3000)
        if p.returncode != 0:
            raise Broken("driver of the generated code failed: %s" % (p.stdout + p.stderr)[-3000:])
        summary = None
        for line in p.stdout.splitlines():
            if not line.startswith("{"):
                continue
            dd = json.loads(line)
            if "summary" in dd:
                summary = dd["summary"]
            elif dd["sig"] == "harness":
                raise Broken("lgenrt: " + dd["detail"])
            else:
                self.cases[int(dd["case"][1:])]["findings"].append(dd)
        if not summary or summary["cases"] != len(ok):
            raise Broken("driver ran %s of %d cases" % (summary, len(ok)))
        return summary


NAMED = re.compile(r"\.spec:\d+:\d+")


def names_element(c):
    """The error names the offending element (its name), or is a syntax error with file:line:column."""
    rec = c["rec"]
    return rec["name"] in c["stderr"] or NAMED.search(c["stderr"]) is not None


def unclean(c):
    s = c["stderr"]
    return "panic:" in s or "goroutine " in s or "runtime error" in s
