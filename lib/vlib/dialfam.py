"""MpxDial scripts: TLC enumerates the steps of a (possibly hostile) server and the calls of the client, mdial plays them
against a real mpx client whose connection is accepted by a scripted raw TCP server."""
import json

from .common import Broken
from . import tlc


def run_scripts(ctx, steps, timeout=1500, every=1):
    wd = ctx.scratch("mdial-%d" % steps)
    # the lenient client (any acceptance-shaped response establishes) must break OnlyNegotiated: the invariant is not vacuous
    rl = tlc.run_tlc(wd, "MpxDial.tla", "MpxDial_lenient.cfg", timeout=300, workers=4, out_name="lenient.out")
    if rl.violated != "OnlyNegotiated":
        raise Broken("MpxDial_lenient: TLC did not find the unnegotiated channel")
    r = tlc.run_tlc(wd, "MpxDial.tla", "MpxDial_%d.cfg" % steps, timeout=timeout, workers=8, out_name="d%d.out" % steps, heap="6g")
    tlc.require_ok(r, "MpxDial/%d" % steps)
    binp = ctx.go_build("mdial")
    p = ctx.run([binp, "-in", r.outfile, "-workers", "8", "-every", str(every), "-seed", str(ctx.seed)], timeout=timeout)
    if p.returncode != 0:
        raise Broken("mdial failed: %s" % p.stderr[-2000:])
    mism, summary = [], None
    for line in p.stdout.splitlines():
        d = json.loads(line)
        if "summary" in d:
            summary = d["summary"]
        else:
            mism.append(d)
    if not summary or (summary["scripts"] == 0 and not mism):
        raise Broken("mdial played no scripts")
    return r, summary, mism
