"""MpxDial scripts: TLC enumerates the steps of a (possibly hostile) server and the calls of the client, mdial plays them
against a real mpx client whose connection is accepted by a scripted raw TCP server."""
import json

from .common import Broken
from . import tlc


def run_scripts(ctx, steps, timeout=1500, every=1):
    wd = ctx.scratch("mdial-%d" % steps)
    # the lenient client (any acceptance-shaped response establishes) must break OnlyNegotiated: the invariant is not vacuous
    rl = tlc.run_tlc(wd, "MpxDial.tla", "MpxDial_lenient.cfg", timeout=300, workers=4, out_name="lenient.out")
    if rl.violated != "OnlyNegotiated":
        raise Broken("MpxDial_lenient: TLC did not find the unnegotiated channel")
    r = tlc.run_tlc(wd, "MpxDial.tla", "MpxDial_%d.cfg" % steps, timeout=timeout, workers=8, out_name="d%d.out" % steps, heap="6g")
    tlc.require_ok(r, "MpxDial/%d" % steps)
    binp = ctx.go_build("mdial")
    mism, summary = [], None
    # every script with a client that proposes no compression, every third one with a client that proposes lz4
    for extra in (["-every", str(every)], ["-lz4", "-every", str(3 * every)]):
        p = ctx.run([binp, "-in", r.outfile, "-workers", "8", "-seed", str(ctx.seed)] + extra, timeout=timeout)
        if p.returncode != 0:
            raise Broken("mdial failed: %s" % p.stderr[-2000:])
        one = None
        for line in p.stdout.splitlines():
            d = json.loads(line)
            if "summary" in d:
                one = d["summary"]
            else:
                if extra[0] == "-lz4":
                    d["sig"] += "(lz4)"
                mism.append(d)
        if not one or (one["scripts"] == 0 and not mism):
            raise Broken("mdial played no scripts")
        if summary is None:
            summary = one
        else:
            summary["scripts_lz4_client"] = one["scripts"]
            summary["scripts"] += one["scripts"]
            summary["steps"] += one["steps"]
    return r, summary, mism
