"""Receive-queue wait/poll protocol (MpxWake.tla): TLC enumerates every interleaving of the receiver's arm / poll / wake steps
with the peer's data frames; mwake replays each on a real channel (layer mpx) or on the rpc client's streaming channel (layer rpc)
with the receiving goroutine held at the rq.arm / rq.poll gates."""
import json

from vlib import tlc
from vlib.common import Broken


def run(ctx, layer, check_vacuity=False):
    cfg = "MpxWake_loop.cfg" if layer == "sendloop" else "MpxWake.cfg"     # the send loop is a consumer already asleep
    r = tlc.run_tlc(ctx.scratch("wake-" + layer), "MpxWake.tla", cfg, timeout=600, workers=4, out_name="wake.out", heap="2g")
    tlc.require_ok(r, "MpxWake")
    if check_vacuity:
        rf = tlc.run_tlc(ctx.scratch("wake-pollfirst"), "MpxWake.tla", "MpxWake_pollfirst.cfg", timeout=600, workers=4, out_name="wakef.out", heap="2g")
        if "NoLostWakeup is violated" not in rf.out and rf.violated != "NoLostWakeup":
            raise Broken("MpxWake with poll-before-arm does not lose a wake-up: the model is vacuous")
    binp = ctx.go_build("mwake")
    p = ctx.run([binp, "-in", r.outfile, "-layer", layer, "-seed", str(ctx.seed)], timeout=2400)
    if p.returncode != 0:
        raise Broken("mwake failed: %s" % p.stderr[-2000:])
    summary = None
    for line in p.stdout.splitlines():
        if not line.startswith("{"):
            continue
        d = json.loads(line)
        if "summary" in d:
            summary = d["summary"]
        elif d["sig"] == "harness":
            raise Broken("mwake: " + d["detail"])
        else:
            ctx.violation("wake:%s:%s" % (layer, d["sig"]), "%s | schedule: %s" % (d["detail"], d["sched"]), d)
    if not summary or summary["schedules"] == 0:
        raise Broken("mwake replayed nothing")
    return r, summary


def run_create(ctx):
    """MpxCreate.tla: a channel is opened while the connection is being closed; every interleaving of the creator's and the
    closer's atomic steps replayed on a real connection by mcreate."""
    r = tlc.run_tlc(ctx.scratch("create"), "MpxCreate.tla", "MpxCreate.cfg", timeout=600, workers=4, out_name="create.out", heap="2g")
    tlc.require_ok(r, "MpxCreate")
    rf = tlc.run_tlc(ctx.scratch("create-flaglast"), "MpxCreate.tla", "MpxCreate_flaglast.cfg", timeout=600, workers=4, out_name="createf.out", heap="2g")
    if "NoOrphan is violated" not in rf.out and rf.violated != "NoOrphan":
        raise Broken("MpxCreate with the flag raised after the sweep leaves no orphan: the model is vacuous")
    binp = ctx.go_build("mcreate")
    p = ctx.run([binp, "-in", r.outfile], timeout=2400)
    if p.returncode != 0:
        raise Broken("mcreate failed: %s" % p.stderr[-2000:])
    summary = None
    for line in p.stdout.splitlines():
        if not line.startswith("{"):
            continue
        d = json.loads(line)
        if "summary" in d:
            summary = d["summary"]
        elif d["sig"] in ("harness", "harness-stuck"):
            raise Broken("mcreate: " + d["detail"])
        else:
            ctx.violation("create:" + d["sig"], "%s | schedule: %s" % (d["detail"], d["sched"]), d)
    if not summary or summary["schedules"] == 0:
        raise Broken("mcreate replayed nothing")
    return r, summary


def run_blocked(ctx):
    """MpxBlocked.tla: a Send / SendAndClose / Free blocked on the connection's full write queue while the peer ends the
    channel and the congestion ends (the peer reads again, or drops the connection), in every order; replayed by mblocked."""
    r = tlc.run_tlc(ctx.scratch("blocked"), "MpxBlocked.tla", "MpxBlocked.cfg", timeout=600, workers=2, out_name="blocked.out", heap="2g")
    tlc.require_ok(r, "MpxBlocked")
    binp = ctx.go_build("mblocked")
    p = ctx.run([binp, "-in", r.outfile], timeout=2400)
    if p.returncode != 0:
        raise Broken("mblocked failed: %s" % p.stderr[-2000:])
    summary = None
    for line in p.stdout.splitlines():
        if not line.startswith("{"):
            continue
        d = json.loads(line)
        if "summary" in d:
            summary = d["summary"]
        elif d["sig"] == "harness":
            raise Broken("mblocked: " + d["detail"])
        else:
            ctx.violation("blocked:" + d["sig"], "%s | schedule: %s" % (d["detail"], d["sched"]), d)
    if not summary or summary["schedules"] == 0:
        raise Broken("mblocked replayed nothing")
    if summary["conclusive"] * 5 < summary["schedules"] * 4 and not ctx.violations:
        raise Broken("mblocked: the congestion could be produced in %d of %d schedules only" % (summary["conclusive"], summary["schedules"]))
    return r, summary


def run_winwake(ctx):
    """MpxWinWake.tla: a sender waiting for send window, held between its load of the window and its sleep, against the
    peer's window updates in every order; replayed by mwinwake."""
    total = {"schedules": 0, "steps": 0}
    states = 0
    for cfg in ("MpxWinWake.cfg", "MpxWinWake_b.cfg"):
        r = tlc.run_tlc(ctx.scratch("winwake-" + cfg[:-4]), "MpxWinWake.tla", cfg, timeout=600, workers=2, out_name="winwake.out", heap="2g")
        tlc.require_ok(r, cfg)
        states += r.distinct
        binp = ctx.go_build("mwinwake")
        p = ctx.run([binp, "-in", r.outfile], timeout=2400)
        if p.returncode != 0:
            raise Broken("mwinwake failed: %s" % p.stderr[-2000:])
        summary = None
        for line in p.stdout.splitlines():
            if not line.startswith("{"):
                continue
            d = json.loads(line)
            if "summary" in d:
                summary = d["summary"]
            elif d["sig"] == "harness":
                raise Broken("mwinwake: " + d["detail"])
            else:
                ctx.violation("winwake:" + d["sig"], "%s | schedule: %s" % (d["detail"], d["sched"]), d)
        if not summary or summary["schedules"] == 0:
            raise Broken("mwinwake replayed nothing")
        total["schedules"] += summary["schedules"]
        total["steps"] += summary["steps"]
    rf = tlc.run_tlc(ctx.scratch("winwake-unbuffered"), "MpxWinWake.tla", "MpxWinWake_unbuffered.cfg", timeout=600, workers=2, out_name="winwakeu.out", heap="2g")
    if "NoLostWakeup is violated" not in rf.out and rf.violated != "NoLostWakeup":
        raise Broken("MpxWinWake without the buffered token does not lose a wake-up: the model is vacuous")
    total["states"] = states
    return total
