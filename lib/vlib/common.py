"""Shared machinery for /verif checks: scratch dirs, evidence, known findings, go builds.

Verdict policy (DESIGN 2.5):
  exit 0  property held on everything explored (KNOWN-FINDING lines allowed)
  exit 1  real code contradicted the specification; prints VIOLATION property=<id> replay=<path>
  exit 2  the check itself is broken (TLC timeout, dead driver, build failure, vacuity)
"""
import json
import os
import re
import shutil
import subprocess
import sys
import tempfile
import time

VERIF = os.path.dirname(os.path.dirname(os.path.dirname(os.path.abspath(__file__))))
REPO = os.environ.get("VERIF_REPO", "/repo")
SPEC_DIR = os.path.join(VERIF, "spec")
HARNESS = os.path.join(VERIF, "harness")
OUT = os.path.join(VERIF, "out")
NCPU = os.cpu_count() or 4


class Broken(Exception):
    """The check machinery failed (not a verdict about the code)."""


def go_env():
    env = dict(os.environ)
    env["GOFLAGS"] = "-mod=mod"
    env["GOPROXY"] = "off"
    env.pop("GOSUMDB", None)
    env.pop("GOTOOLCHAIN", None)
    env.setdefault("GOCACHE", os.path.expanduser("~/.cache/go-build"))
    return env


class Ctx:
    def __init__(self, prop, tier, seed):
        self.prop = prop
        self.tier = tier
        self.seed = seed
        self.t0 = time.time()
        self.scratch_root = tempfile.mkdtemp(prefix="verif-%s-" % prop.lower())
        self.violations = []   # dicts: {sig, what, replay}
        self.known_hits = []
        self.coverage = {}
        self.assumptions = []
        self.level = "model_checking"
        self._bins = {}
        self.crashes = []
        self.replay_prefix = ""
        os.makedirs(os.path.join(OUT, "replays", prop), exist_ok=True)

    # ---- scratch -------------------------------------------------------
    def scratch(self, name):
        d = os.path.join(self.scratch_root, name)
        os.makedirs(d, exist_ok=True)
        return d

    def cleanup(self):
        if os.environ.get("VERIF_KEEP"):        # debugging aid: leave the scratch directory behind
            say("scratch kept: " + self.scratch_root)
            return
        shutil.rmtree(self.scratch_root, ignore_errors=True)

    def quick(self):
        return self.tier == "quick"

    # ---- go harness ----------------------------------------------------
    def sync_harness(self):
        """go.sum of the harness module must be /repo's (no network)."""
        src = os.path.join(REPO, "go.sum")
        dst = os.path.join(HARNESS, "go.sum")
        try:
            if not os.path.exists(dst) or open(src).read() != open(dst).read():
                shutil.copy(src, dst)
        except OSError as e:
            raise Broken("cannot sync go.sum: %s" % e)

    def go_build(self, pkg, tags="verif", race=False, name=None):
        """Builds ./cmd/<pkg> of the harness against /repo's working tree."""
        key = (pkg, tags, race)
        if key in self._bins:
            return self._bins[key]
        self.sync_harness()
        out = os.path.join(self.scratch("bin"), (name or pkg) + ("-race" if race else ""))
        cmd = ["go", "build", "-o", out]
        if REPO != "/repo":
            # testing the machinery against a scratch worktree (seeded changes): same module, other replace target
            alt = os.path.join(self.scratch("mod"), "alt.mod")
            with open(alt, "w") as fh:
                fh.write(open(os.path.join(HARNESS, "go.mod")).read().replace("=> /repo", "=> " + REPO))
            shutil.copy(os.path.join(REPO, "go.sum"), alt[:-4] + ".sum")
            cmd += ["-modfile", alt]
        if tags:
            cmd += ["-tags", tags]
        if race:
            cmd += ["-race"]
        cmd += ["./cmd/" + pkg]
        p = subprocess.run(cmd, cwd=HARNESS, env=go_env(), capture_output=True, text=True)
        if p.returncode != 0:
            raise Broken("go build %s failed:\n%s" % (pkg, (p.stdout + p.stderr)[-4000:]))
        self._bins[key] = out
        return out

    def run(self, cmd, timeout, cwd=None, env=None, stdin=None, stdout=None):
        e = go_env()
        if env:
            e.update(env)
        try:
            p = subprocess.run(cmd, cwd=cwd, env=e, timeout=timeout, input=stdin,
                               stdout=stdout if stdout is not None else subprocess.PIPE,
                               stderr=subprocess.PIPE, text=True if stdout is None else None)
        except subprocess.TimeoutExpired:
            raise Broken("timeout after %ss: %s" % (timeout, " ".join(cmd)[:200]))
        self._note_crash(cmd, p)
        return p

    def _note_crash(self, cmd, p):
        """A driver process that dies from a Go runtime fatal error or an unrecovered panic whose stack runs through the library
        (not only through the harness) is an observation about the library: remembered here, reported by check.py as a
        violation if the check then gives up as broken."""
        err = p.stderr if isinstance(p.stderr, str) else (p.stderr or b"").decode("utf-8", "replace")
        if p.returncode in (0, None) or not err:
            return
        m = re.search(r"^(fatal error: .*|panic: .*)$", err, re.M)
        if not m or "goroutine " not in err:
            return
        block = err[m.start():]
        first = block.split("\n\ngoroutine", 2)
        stack = first[1] if len(first) > 1 else block
        frames = [l.strip() for l in stack.splitlines() if l.startswith("github.com/") or l.startswith("verifharness/") or l.startswith("main.")]
        lib = [f for f in frames if "github.com/basecomplextech/spec/" in f and "/verifhook" not in f]
        if not lib:
            return
        reason = m.group(1).strip()
        if reason.startswith("panic:") and lib and frames and not frames[0].startswith("github.com/basecomplextech/spec"):
            # a panic raised by harness code that merely has library frames below it on the stack is the harness's own
            if not any("github.com/basecomplextech/spec" in f for f in frames[:3]):
                return
        self.crashes.append({"driver": os.path.basename(cmd[0]), "reason": reason[:200], "frames": lib[:8], "stderr": block[:6000]})

    # ---- verdicts ------------------------------------------------------
    def save_replay(self, name, obj):
        path = os.path.join(OUT, "replays", self.prop, self.replay_prefix + name)
        with open(path, "w") as f:
            if isinstance(obj, (dict, list)):
                json.dump(obj, f, indent=1)
            else:
                f.write(obj)
        return path

    def violation(self, sig, what, replay_obj, name=None):
        """Report one violation observed on real code. sig is the stable signature used by known findings."""
        k = match_known(self.prop, sig)
        if k is not None:
            if k["id"] not in [h["id"] for h in self.known_hits]:
                self.known_hits.append(k)
            k.setdefault("_count", 0)
            k["_count"] += 1
            return False
        if len(self.violations) < 50:
            n = name or ("v%03d.json" % len(self.violations))
            path = self.save_replay(n, {"property": self.prop, "signature": sig, "what": what, "case": replay_obj})
            self.violations.append({"sig": sig, "what": what, "replay": path})
        else:
            self.violations.append({"sig": sig, "what": what, "replay": self.violations[0]["replay"]})
        return True


# ---- known findings ---------------------------------------------------------
_known_cache = None


def load_known():
    global _known_cache
    if _known_cache is None:
        path = os.path.join(VERIF, "known_findings.json")
        if os.path.exists(path):
            _known_cache = json.load(open(path))
        else:
            _known_cache = {"known": [], "fixed": []}
    return _known_cache


def match_known(prop, sig):
    """A known entry matches when its property is the same and its 'signature' equals sig exactly,
    or when it has 'signature_prefix' and sig starts with it (prefixes are as specific as a call site)."""
    for k in load_known().get("known", []):
        if k["property"] != prop:
            continue
        if k.get("signature") == sig:
            return k
        pre = k.get("signature_prefix")
        if pre and sig.startswith(pre):
            return k
    return None


# ---- evidence ------------------------------------------------------------------
def write_evidence(ctx):
    os.makedirs(os.path.join(VERIF, "evidence"), exist_ok=True)
    ev = {
        "property_id": ctx.prop,
        "tier": ctx.tier,
        "seed": int(ctx.seed),
        "level": ctx.level,
        "coverage": ctx.coverage,
        "assumptions": ctx.assumptions,
        "wall_s": round(time.time() - ctx.t0, 2),
        "violations": len(ctx.violations),
    }
    if ctx.known_hits:
        ev["coverage"]["known_findings_hit"] = [
            {"id": k["id"], "count": k.get("_count", 0)} for k in ctx.known_hits]
    path = os.path.join(VERIF, "evidence", ctx.prop + ".json")
    if REPO != "/repo":
        # a run against a scratch worktree (seeded change) must not overwrite the evidence of /repo
        os.makedirs(os.path.join(OUT, "evidence-scratch"), exist_ok=True)
        path = os.path.join(OUT, "evidence-scratch", "%s-%s.json" % (ctx.prop, os.path.basename(REPO)))
    tmp = path + ".tmp"
    with open(tmp, "w") as f:
        json.dump(ev, f, indent=1, sort_keys=True)
        f.write("\n")
    os.replace(tmp, path)
    return path


def say(*a):
    print(*a, flush=True)
