"""C07 flow control: MpxFlow.tla exhaustive (safety + liveness) per window size; MpxFlowScript.tla scripts replayed
through a scripted wire-level peer against a real server-side channel (DESIGN 4 C07)."""
import json
import os
from concurrent.futures import ThreadPoolExecutor

from vlib import tlc
from vlib.common import Broken


def flow_cfg(W, maxmsgs, openfirst):
    sizes = sorted({1, max(1, W // 2 - 1), max(1, W // 2), W // 2 + 1, max(1, W - 1), W, W + 1, 2 * W})
    return ("SPECIFICATION Spec\nCONSTANTS\n  W = %d\n  Sizes = {%s}\n  MaxMsgs = %d\n  OpenFirst = %s\n"
            "INVARIANTS Bound Conservation NoStuck AckPending\nPROPERTIES Progress\n"
            % (W, ", ".join(map(str, sizes)), maxmsgs, "TRUE" if openfirst else "FALSE")), sizes


def script_cfg(W, mode, steps):
    sizes = sorted({1, max(1, W // 2), W // 2 + 1, W, W + 1, 2 * W + 1})
    deltas = sorted({1, max(1, W // 2), W})
    return ("SPECIFICATION Spec\nCONSTANTS\n  W = %d\n  Sizes = {%s}\n  Deltas = {%s}\n  MaxSteps = %d\n  Mode = \"%s\"\nCONSTRAINT Emit\n"
            % (W, ", ".join(map(str, sizes)), ", ".join(map(str, deltas)), steps, mode))


def run(ctx):
    ctx.level = "model_checking"
    quick = ctx.quick()
    ws = [1, 2, 3, 4, 5, 6] if quick else list(range(1, 17))
    maxmsgs = 3 if quick else 4
    states = trans = 0
    per_w = {}

    def mc(args):
        W, openfirst = args
        cfg, sizes = flow_cfg(W, maxmsgs, openfirst)
        name = "flow_%d_%d" % (W, int(openfirst))
        wd = ctx.scratch(name)
        r = tlc.run_tlc(wd, "MpxFlow.tla", name + ".cfg", workers=2, timeout=1500, heap="3g",
                        extra_files={name + ".cfg": cfg}, out_name=name + ".out")
        tlc.require_ok(r, "MpxFlow W=%d" % W)
        return W, openfirst, r, sizes

    with ThreadPoolExecutor(max_workers=8) as ex:
        for W, of, r, sizes in ex.map(mc, [(W, of) for W in ws for of in (True, False)]):
            states += r.distinct
            trans += r.generated
            per_w["W=%d open_first=%s" % (W, of)] = {"distinct": r.distinct, "sizes": sizes}

    # scripts for the binding
    sws = [1, 2, 3, 4, 5, 8] if quick else [1, 2, 3, 4, 5, 6, 7, 8, 9, 16, 64]
    steps = 4 if quick else 5
    wd = ctx.scratch("scripts")
    allout = os.path.join(wd, "all.out")

    def gen(args):
        W, mode = args
        name = "s_%s_%d" % (mode, W)
        r = tlc.run_tlc(wd + "/" + name, "MpxFlowScript.tla", name + ".cfg", workers=2, timeout=900, heap="3g",
                        extra_files={name + ".cfg": script_cfg(W, mode, steps)}, out_name=name + ".out")
        tlc.require_ok(r, "MpxFlowScript %s W=%d" % (mode, W))
        return r

    nscripts = 0
    with ThreadPoolExecutor(max_workers=8) as ex, open(allout, "w") as out:
        for r in ex.map(gen, [(W, m) for W in sws for m in ("sender", "receiver")]):
            states += r.distinct
            trans += r.generated
            with open(r.outfile) as fh:
                for line in fh:
                    if line.startswith('"'):
                        out.write(line)
                        nscripts += 1
    binp = ctx.go_build("mflow")
    every = 1
    p = ctx.run([binp, "-in", allout, "-workers", "8", "-every", str(every), "-seed", str(ctx.seed)], timeout=1500)
    if p.returncode != 0:
        raise Broken("mflow failed: %s" % p.stderr[-2000:])
    summary = None
    samples = []
    for line in p.stdout.splitlines():
        d = json.loads(line)
        if "summary" in d:
            summary = d["summary"]
        else:
            ctx.violation(d["sig"], "%s | script %s (step %d)" % (d["detail"], d["script"], d["step"]), d)
    if not summary or sum(summary["scripts"].values()) == 0:
        raise Broken("mflow executed no scripts")
    for rec in tlc.payload_lines(allout):
        samples.append({"mode": rec["mode"], "w": rec["w"], "script": rec["script"], "acks": rec["acks"]})
        if len(samples) >= 3:
            break
    # the sender's sleep on the window against the arrival of updates (gate between its load and its sleep)
    from vlib import wakefam
    ww = wakefam.run_winwake(ctx)
    # the charge of a send against the credit of a window update, unscheduled: exact conservation under a flood of updates
    binr = ctx.go_build("mwinrace")
    pr = ctx.run([binr, "-rounds", "6" if quick else "40", "-seed", str(ctx.seed)], timeout=1800)
    if pr.returncode != 0:
        raise Broken("mwinrace failed: %s" % pr.stderr[-2000:])
    race = None
    for line in pr.stdout.splitlines():
        d = json.loads(line)
        if "summary" in d:
            race = d["summary"]
        else:
            ctx.violation("winrace:" + d["sig"], d["detail"], d)
    if not race or race["sends_during_floods"] < 1000:
        raise Broken("mwinrace: the sender did not run while the updates arrived (%s)" % race)
    ctx.coverage = {
        "window_conservation_under_flood": {"model": "MpxFlow.tla (Conservation)", "rounds": race["rounds"], "window_updates": race["updates"],
                                            "sends_while_updates_arrived": race["sends_during_floods"], "bytes": race["bytes"],
                                            "rule": "a handler streams one-byte messages while the peer floods the channel with window updates of one byte; "
                                                    "the number of bytes admitted before the sender blocks for good equals W + sum(deltas) exactly: "
                                                    "one byte more is a lost charge, one byte less a lost credit or wake-up"},
        "window_wakeups": {"model": "MpxWinWake.tla", "schedules_replayed": ww["schedules"], "steps": ww["steps"],
                           "rule": "a Send waiting for window is held at the gate between loading the window and going to sleep; in half of the schedules a "
                                   "second goroutine calls Send on the same channel meanwhile (it has to queue up behind the first); the peer's "
                                   "window updates (enough at once, crumbs then enough, exactly half the window, never enough) are applied before, "
                                   "between and after; after every step the sender is at the gate with the model's window, asleep, or has returned; "
                                   "without the buffered token the model loses a wake-up (checked)"},
        "states": states, "transitions": trans, "traces_validated_against_impl": sum(summary["scripts"].values()),
        "samples": samples, "windows_model_checked": ws, "windows_scripted": sws, "script_steps": summary["steps"],
        "per_window": per_w, "invariants": ["Bound", "Conservation", "NoStuck", "AckPending"], "liveness": ["Progress"],
        "explanation": "MpxFlow: every interleaving of send / deliver-data / consume / deliver-window / close for each window size over "
                       "the size alphabet {1, W/2-1, W/2, W/2+1, W-1, W, W+1, 2W}; Bound, Conservation, NoStuck as invariants and "
                       "(wait ~> admitted) under fairness of the receiver. MpxFlowScript reuses the admission and acknowledgement rules "
                       "to produce deterministic scripts; a scripted raw peer drives a real server-side channel: admitted/blocked per "
                       "Send (blocked = verif hook send.wait reporting exactly the model's window), data frames on the wire, "
                       "SendAndClose never blocked, window frames and deltas emitted while the application consumes.",
    }
    ctx.assumptions = ["liveness in the implementation is observed as bounded-time progress (4 s per step)",
                       "the real client-side channel shares the channel code with the server-side one exercised here"]


def replay(ctx, path):
    from vlib.common import say
    say(json.dumps(json.load(open(path)), indent=1)[:4000])
