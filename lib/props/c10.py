"""C10 scalar codecs: WireGen scalar rows (value, bytes, cross-width reads) vs real encoders/decoders (DESIGN 4 C10)."""
from vlib import wirefam as wf


def run(ctx):
    ctx.level = "model_checking"
    level = 1 if ctx.quick() else 2
    r = wf.gen(ctx, "scalar", level)
    summary, mism = wf.execute(ctx, r.outfile)
    wf.report(ctx, mism, {"C10"})
    ctx.coverage = {
        "states": r.distinct, "transitions": r.generated, "traces_validated_against_impl": summary["cases"].get("scalar", 0),
        "samples": wf.samples(r.outfile, 4), "invariants": ["CodecInverse", "WidenNarrow"],
        "exhaustive": True,
        "explanation": "one row per scalar value: TLC evaluates the specification's encoding, CodecInverse and the result of every "
                       "cross-width read (exact value / overflow / NaN / unconstrained rounding); the harness requires the real "
                       "encoder to produce those bytes and report that size, the real decoder to invert it with the same size also "
                       "behind prefixes, and every other-width read to match. "
                       + ("Level 2: all 65536 int16 and uint16 values, every float32 exponent." if level == 2 else
                          "Level 1: all bool/byte values, powers of two +-1 and varint/zig-zag boundaries for 32/64 bit, float exponent x mantissa patterns."),
    }
    ctx.assumptions = ["float64 -> float32 for in-range values that need rounding is unconstrained",
                       "NaN payloads are compared only for NaN-ness"]


def replay(ctx, path):
    import json
    from vlib.common import say
    say(json.dumps(json.load(open(path)), indent=1)[:4000])
