"""C18 pooled objects never leak state between uses or goroutines: Pool.tla (life cycle of a pooled object; RecycledIsFresh,
NoStealing) model-checked; the pool events of real concurrent runs (writers, channel states, rpc call states; verif hooks report
every acquisition with the mask of attributes that are not fresh, every release) validated by TLC against PoolTrace.tla; results of
the concurrent programs compared with what the specifications say for each of them alone; race detector in the thorough tier
(DESIGN 4 C18)."""
import json
import os
import re

from vlib import tlc, writerfam as wf
from vlib.common import Broken

ATTRS = {
    "mpx.channelState": ["id", "ctx", "conn", "client", "initWindow", "opened", "closed", "closedUser", "sendWindow", "sendWindowWait token",
                         "recvQueue closed", "recvQueue has data", "recvBytes", "sender"],
    "rpc.clientChannelState": ["ch", "logger", "method", "sendReq", "sendEnd", "recvEnd", "recvResp", "recvFailed", "recvError", "result",
                               "resultOK", "resultSt"],
    "rpc.serverChannelState": ["ch", "-", "method", "sendReq", "sendEnd", "recvEnd", "recvReq", "recvFailed", "recvError"],
    "rpc.requestState": ["buffer not empty", "done", "writer error", "calls"],
    "writer.state": ["buf", "releaseState", "releaseWriter", "stack", "elements", "fields"],
    "writer.writer": ["err", "-", "-", "-", "state.buf", "state.releaseState", "state.releaseWriter", "state.stack", "state.elements", "state.fields"],
}

TCFG = """SPECIFICATION TSpec
CONSTANTS
  TraceFile = "%s"
  NObjs = %d
CONSTRAINT HighWater
INVARIANT FreshWhenFree
POSTCONDITION Accepted
CHECK_DEADLOCK FALSE
"""


def mask_names(kind, m):
    names = ATTRS.get(kind, [])
    out = []
    for i in range(21):
        if m >> i & 1:
            out.append(names[i] if i < len(names) else "bit%d" % i)
    return out


def validate(ctx, name, path):
    """TLC: the recorded pool events are a behaviour of Pool.tla."""
    lines = [l for l in open(path) if l.strip()]
    if not lines:
        raise Broken("no pool events recorded by " + name)
    nobj = max(json.loads(l)["o"] for l in lines)
    wd = os.path.dirname(path)
    cfg = "pt_%s.cfg" % name
    r = tlc.run_tlc(wd, "PoolTrace.tla", cfg, workers=1, dfs=True, timeout=1800, heap="6g",
                    extra_files={cfg: TCFG % (os.path.basename(path), nobj)}, out_name="pt_%s.out" % name, deadlock=True)
    text = open(r.outfile, errors="replace").read()
    mm = re.search(r'<<"REJECTED_AT", (\d+), (\d+)>>', text)
    if r.violated:
        ctx.violation("pool-invariant:" + r.violated, "pool trace of %s violates %s" % (name, r.violated), {"trace": ctx.save_replay("pool_%s.ndjson" % name, "".join(lines))})
    elif mm:
        at = int(mm.group(1))
        ev = json.loads(lines[at - 1])
        held = None
        for l in lines[:at - 1]:
            d = json.loads(l)
            if d["o"] == ev["o"]:
                held = d["e"] == "get"
        if ev["e"] == "get" and ev["m"] != 0:
            what = "a recycled %s carries state of its previous use: %s" % (ev["k"], ", ".join(mask_names(ev["k"], ev["m"])))
            sig = "stale:%s:%s" % (ev["k"], "+".join(mask_names(ev["k"], ev["m"])))
        elif ev["e"] == "get" and held:
            what = "a %s that is still in use was handed out again" % ev["k"]
            sig = "handed-out-twice:" + ev["k"]
        elif ev["e"] == "put" and not held:
            what = "a %s was released twice (or released without having been acquired)" % ev["k"]
            sig = "double-release:" + ev["k"]
        else:
            what = "event not explained by Pool.tla: %s" % lines[at - 1].strip()
            sig = "pool-trace-rejected:" + ev["k"]
        ctx.violation(sig, "%s (%s, event %d of %d)" % (what, name, at, len(lines)),
                      {"trace": ctx.save_replay("pool_%s.ndjson" % name, "".join(lines)), "event_index": at, "event": ev})
    elif "No error has been found" not in text:
        raise Broken("pool trace validation of %s did not finish: %s" % (name, text[-1500:]))
    kinds = {}
    for l in lines:
        d = json.loads(l)
        if d["e"] == "get":
            kinds[d["k"]] = kinds.get(d["k"], 0) + 1
    return len(lines), nobj, kinds, r


def run_driver(ctx, name, binp, args, timeout=3000):
    p = ctx.run([binp] + args, timeout=timeout)
    races = p.stderr.count("WARNING: DATA RACE")
    if p.returncode != 0 and not races:
        raise Broken("%s failed rc=%s: %s" % (name, p.returncode, p.stderr[-2000:]))
    findings, summary = [], None
    for line in p.stdout.splitlines():
        if not line.startswith("{"):
            continue
        d = json.loads(line)
        if "summary" in d:
            summary = d["summary"]
        else:
            findings.append(d)
    if summary is None and not races:
        raise Broken("%s printed no summary" % name)
    return summary or {}, findings, p.stderr


RACE_FRAME = re.compile(r"^\s+(github\.com/basecomplextech/spec[^\s(]*)")


def race_reports(ctx, name, stderr):
    """Race detector reports with a frame inside the module are violations; the signature is the pair of innermost module frames."""
    blocks = stderr.split("WARNING: DATA RACE")[1:]
    n = 0
    for b in blocks:
        b = b.split("==================")[0]
        parts = re.split(r"\n(?=Previous |Goroutine )", b)
        tops = []
        for part in parts[:2]:
            fr = [m.group(1) for m in map(RACE_FRAME.match, part.splitlines()) if m]
            fr = [f for f in fr if "/verifhook" not in f and "/internal/vpool" not in f]
            tops.append(fr[0] if fr else "?")
        if all(t == "?" for t in tops):
            continue    # a race wholly outside the library (harness or dependency)
        n += 1
        ctx.violation("race:" + "|".join(sorted(tops)), "race detector (%s): unsynchronised access between %s and %s" % (name, tops[0], tops[-1]),
                      {"report": b[:6000]})
    return n


def run(ctx):
    ctx.level = "model_checking"
    # 1. the model, and its non-vacuity
    r = tlc.run_tlc(ctx.scratch("pool"), "Pool.tla", "Pool.cfg", timeout=900, workers=8, out_name="pool.out", heap="4g")
    tlc.require_ok(r, "Pool")
    states, trans = r.distinct, r.generated
    rf = tlc.run_tlc(ctx.scratch("pool-faulty"), "Pool.tla", "Pool_faulty.cfg", timeout=900, workers=8, out_name="poolf.out", heap="4g")
    if not rf.violated and "is violated" not in rf.out:
        raise Broken("Pool.tla with the faulty actions enabled violates nothing: the properties are vacuous")

    quick = ctx.quick()
    traces = {}
    findings_total = 0
    # 2a. writer programs, 8 goroutines, pooled / auto-releasing / plain writers, programs that fail midway included
    wd = ctx.scratch("w")
    cfgs = [("Writer_misuse4.cfg", "mis", 3 if quick else 1), ("Writer_wf3.cfg", "wf3", 2 if quick else 1)]
    programs = 0
    for cfg, nm, every in cfgs:
        g = wf.gen(ctx, cfg, "c18" + nm, timeout=2400)
        states += g.distinct
        trans += g.generated
        tpath = os.path.join(wd, "pool_w_%s.ndjson" % nm)
        binp = ctx.go_build("wprog")
        summary, mism, _ = run_driver(ctx, "wprog", binp, ["-in", g.outfile, "-variants", "pooled,release", "-seed", str(ctx.seed), "-read=false", "-every", str(every),
                                                           "-workers", "8", "-pooltrace", tpath, "-poolmax", "15000" if quick else "60000"])
        programs += summary.get("programs", 0)
        for m in mism:
            findings_total += 1
            ctx.violation("concurrent-writer:%s:%s" % (m["kind"], m["sig"]),
                          "a program run among 8 goroutines differs from the specification of that program alone: %s | program: %s | variant %s"
                          % (m["detail"], m.get("prog"), m["variant"]), m)
        traces["writer-" + nm] = tpath
    # 2b. channel traffic and rpc calls (failed, cancelled and abandoned exchanges included)
    td = ctx.scratch("t")
    tpath = os.path.join(td, "pool_traffic.ndjson")
    summary, fnd, _ = run_driver(ctx, "mtraffic", ctx.go_build("mtraffic"),
                                 ["-out", os.path.join(td, "t.ndjson"), "-runs", "25" if quick else "150", "-seed", str(ctx.seed), "-pooltrace", tpath])
    for f in fnd:
        findings_total += 1
        ctx.violation("concurrent-traffic:" + f["sig"], "%s | %s" % (f.get("detail"), f.get("config", "")), f)
    traces["traffic"] = tpath
    # channels ended while their own side is inside Send, over a stalling network: a state must not go back to its pool
    # while a goroutine still uses it (findings and crashes only, the trace is that of the pools)
    tpath2 = os.path.join(td, "pool_rough.ndjson")
    summary, fnd, _ = run_driver(ctx, "mtraffic", ctx.go_build("mtraffic"),
                                 ["-out", os.path.join(td, "t2.ndjson"), "-runs", "60" if quick else "300", "-seed", str(ctx.seed + 7), "-rough", "-stall",
                                  "-pooltrace", tpath2])
    for f in fnd:
        findings_total += 1
        ctx.violation("concurrent-traffic-rough:" + f["sig"], "%s | %s" % (f.get("detail"), f.get("config", "")), f)
    traces["traffic-rough"] = tpath2
    rd = ctx.scratch("r")
    tpath = os.path.join(rd, "pool_rpc.ndjson")
    summary, fnd, _ = run_driver(ctx, "mrpc", ctx.go_build("mrpc"),
                                 ["-out", os.path.join(rd, "r.ndjson"), "-runs", "10" if quick else "60", "-calls", "24", "-seed", str(ctx.seed), "-pooltrace", tpath])
    for f in fnd:
        findings_total += 1
        ctx.violation("concurrent-rpc:" + f["sig"], f.get("detail", ""), f)
    traces["rpc"] = tpath

    events = 0
    acquisitions = {}
    objs = {}
    for name, path in traces.items():
        n, nobj, kinds, tr = validate(ctx, name, path)
        events += n
        objs[name] = nobj
        states += tr.distinct
        trans += tr.generated
        for k, v in kinds.items():
            acquisitions[k] = acquisitions.get(k, 0) + v
    for k in ATTRS:
        if acquisitions.get(k, 0) == 0:
            raise Broken("no acquisition of %s was recorded: the hook or the driver is dead" % k)

    # 3. race detector (thorough): the same drivers, race builds
    races = None
    if not quick:
        races = 0
        g = wf.gen(ctx, "Writer_misuse4.cfg", "c18race", timeout=2400)
        for name, pkg, args in (
                ("wprog", "wprog", ["-in", g.outfile, "-variants", "pooled,release,fresh", "-seed", str(ctx.seed), "-read=false", "-every", "5", "-workers", "8"]),
                ("mtraffic", "mtraffic", ["-out", os.path.join(td, "race_t.ndjson"), "-runs", "30", "-seed", str(ctx.seed + 1)]),
                ("mrpc", "mrpc", ["-out", os.path.join(rd, "race_r.ndjson"), "-runs", "12", "-calls", "24", "-seed", str(ctx.seed + 1)]),
                ("mclient", "mclient", ["-out", ctx.scratch("rc"), "-runs", "6", "-seed", str(ctx.seed + 1)])):
            binp = ctx.go_build(pkg, race=True)
            _, _, stderr = run_driver(ctx, name + "-race", binp, args, timeout=3000)
            races += race_reports(ctx, name, stderr)

    # pooled rpc call states: a streaming call freed by a second goroutine while the first one waits in Response, followed by
    # ordinary calls that draw the same pooled objects (scripts of SvcCall.tla)
    from vlib import svcfam
    _, sfiles = svcfam.scripts(ctx, free=True)
    fsum = svcfam.run_rpc(ctx, sfiles[1:], 1500 if ctx.quick() else 30000)
    ctx.coverage = {
        "rpc_calls_freed_while_in_use": {"model": "SvcCall.tla (WithFree)", "executed": fsum["scripts"], "generated": fsum["of"]},
        "states": states, "transitions": trans, "traces_validated_against_impl": len(traces), "pool_events": events,
        "acquisitions_by_pool": acquisitions, "distinct_objects_by_trace": objs, "writer_programs_run_concurrently": programs,
        "driver_findings": findings_total, "race_reports_in_module": races,
        "invariants": ["TypeOK", "FreshWhenFree", "HolderIffHeld", "RecycledIsFresh", "NoStealing", "trace: acquisition mask = dirty set"],
        "samples": [open(p).readline().strip() for p in list(traces.values())[:3]],
        "explanation": "Pool.tla: 3 objects x 3 goroutines x 3 attributes, New/Get/Use/Pass/Put/Drop, exhaustive; with the deviations (release "
                       "without reset, release of a held object) enabled TLC must find a violation. Real runs: 8 goroutines replaying Writer.tla "
                       "programs (including programs that fail midway and release their writer) on pooled and auto-releasing writers, "
                       "each result compared with the specification of that program alone; multi-channel traffic with early ends; rpc calls "
                       "with handler errors, panics, streams, oneway calls and calls whose caller gives up on a deadline. Every acquisition and "
                       "release of the six pools is recorded (acquisition: after the object was taken, with the attributes that are not fresh; "
                       "release: after the reset, before the object goes back) and TLC checks the event sequence is a behaviour of Pool.tla: "
                       "an object is never handed out while held, never released twice, and always fresh when taken.",
    }
    ctx.assumptions = ["whether sync.Pool recycles an object in a given run is up to the runtime; recycling is frequent in these drivers "
                       "(distinct objects << acquisitions) and every recycled acquisition is checked",
                       "the pooled writer's releaseWriter flag is constant for its pool and not counted as state"]
    if not quick:
        ctx.assumptions.append("race detector: only reports with a frame inside github.com/basecomplextech/spec are counted")


def replay(ctx, path):
    from vlib.common import say
    say(open(path).read()[:5000])
