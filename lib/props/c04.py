"""C04 every RPC call gets its own handler run, result and status: call histories recorded at the public API of a real rpc
client and server (the harness is caller and handler) validated by TLC against RpcTrace.tla (DESIGN 4 C04)."""
import json
import os
import re

from vlib import tlc
from vlib.common import Broken

CFG = """SPECIFICATION TSpec
CONSTANTS
  Calls = {%s}
  TraceFile = "%s"
CONSTRAINT HighWater
INVARIANTS HandlerAtMostOnce OkOnlyIfServerSentOk StreamPrefix
POSTCONDITION Accepted
CHECK_DEADLOCK FALSE
"""
NCALLS = 24


def validate(ctx, wd, name):
    cfg = "rpc_%s.cfg" % name.replace(".", "_")
    r = tlc.run_tlc(wd, "RpcTrace.tla", cfg, workers=1, dfs=True, timeout=900, heap="6g",
                    extra_files={cfg: CFG % (", ".join(map(str, range(1, NCALLS + 1))), name)}, out_name=cfg + ".out", deadlock=True)
    text = open(r.outfile, errors="replace").read()
    m = re.search(r'<<"REJECTED_AT", (\d+), (\d+)>>', text)
    if r.violated:
        return r, ("invariant", r.violated)
    if m:
        return r, ("rejected", int(m.group(1)))
    if "No error has been found" in text:
        return r, None
    raise Broken("rpc trace validation did not finish: %s" % text[-1500:])


def run(ctx):
    ctx.level = "model_checking"
    binp = ctx.go_build("mrpc")
    rounds = [(40, ctx.seed)] if ctx.quick() else [(400, ctx.seed + k) for k in range(5)]
    states = trans = calls = events = 0
    samples = []
    for runs, seed in rounds:
        wd = ctx.scratch("rpc-%d" % seed)
        trace = os.path.join(wd, "rpc.ndjson")
        p = ctx.run([binp, "-out", trace, "-runs", str(runs), "-calls", str(NCALLS), "-seed", str(seed)], timeout=3000)
        if p.returncode != 0:
            raise Broken("mrpc failed: %s" % p.stderr[-2000:])
        summary = None
        for line in p.stdout.splitlines():
            d = json.loads(line)
            if "summary" in d:
                summary = d["summary"]
            elif d["sig"] == "harness":
                raise Broken("harness: " + d["detail"])
            else:
                ctx.violation(d["sig"], d["detail"], d)
        if not summary or summary["events"] == 0:
            raise Broken("mrpc recorded nothing")
        calls += summary["calls"]
        events += summary["events"]
        r, verdict = validate(ctx, wd, "rpc.ndjson")
        states += r.distinct
        trans += r.generated
        lines = open(trace).read().splitlines()
        if verdict:
            path = ctx.save_replay("rejected-rpc-seed%d.ndjson" % seed, "\n".join(lines))
            if verdict[0] == "rejected":
                at = verdict[1]
                ev = json.loads(lines[at - 1])
                hist = [l for l in lines[max(0, at - 400):at] if json.loads(l).get("i") == ev.get("i")]
                ctx.violation("history-rejected:%s" % ev.get("e"),
                              "call history is not a behaviour of Rpc: event %d %s cannot happen; events of that call: %s" % (at, ev, hist[-10:]),
                              {"trace": path, "event_index": at})
            else:
                ctx.violation("invariant:" + verdict[1], "a recorded call history violates " + verdict[1], {"trace": path})
        if not samples:
            samples = lines[:6]
            # binding demonstration: a call that gets another call's result must be rejected
            evs = [json.loads(l) for l in lines]
            for e in evs:
                if e["e"] == "ce" and e["code"] == "ok" and e["res"] != 0:
                    e["res"] += 7
                    break
            with open(os.path.join(wd, "bad.ndjson"), "w") as fh:
                fh.write("\n".join(json.dumps(e) for e in evs) + "\n")
            _, v2 = validate(ctx, wd, "bad.ndjson")
            if v2 is None:
                raise Broken("rpc trace validation is vacuous: a history with a foreign result was accepted")
    # streamed messages reach the caller whatever the interleaving of its wait / poll steps with their arrival (MpxWake, rpc layer)
    from vlib import wakefam
    wr, wsum = wakefam.run(ctx, "rpc")
    states += wr.distinct
    trans += wr.generated
    wr2, wsum2 = wakefam.run(ctx, "rpcserver")      # the handler's side: messages streamed by the caller
    wsum["schedules"] += wsum2["schedules"]
    # single calls as scripts: every interleaving of the caller's and the handler's operations, executed on the rpc layer
    from vlib import svcfam
    sr, sfiles = svcfam.scripts(ctx, deep=not ctx.quick(), drop=True, free=True)
    states += sr.distinct
    trans += sr.generated
    ssum = svcfam.run_rpc(ctx, sfiles, 1500 if ctx.quick() else 0, None if ctx.quick() else 20000)
    # the caller against every sequence of reply frames, the server against every sequence of request / stream frames
    from vlib import rpcfam
    rr, rsum, nfr = rpcfam.run_reply(ctx)
    qr, qsum, nq = rpcfam.run_request(ctx)
    states += rr.distinct + qr.distinct
    ctx.coverage = {
        "reply_frames": {"model": "RpcReply.tla", "sequences_replayed": rsum["scripts"], "max_frames": nfr,
                         "rule": "every sequence of up to %d reply frames over {stream message, end marker, OK response with result, application "
                                 "response, response without status, bytes that are no message, cut response, request, message of an undefined "
                                 "type carrying an OK response, structurally invalid value}, written by a handler on the mpx level, read by "
                                 "rpc.Client.Request and by a streaming caller (Receive until the stream ends, then Response); the caller's "
                                 "observations must be the model's: OK only for an OK response with nothing malformed before it and with that "
                                 "call's own result, a malformed frame is an rpc error that sticks, a channel that ends without response is "
                                 "not OK; 8 calls share the connection, a well-formed call next to them stays unaffected" % nfr},
        "request_frames": {"model": "RpcRequest.tla", "sequences_replayed": qsum["scripts"], "max_frames": nq, "healthy_calls": qsum["healthy_calls"],
                           "rule": "a wire-level mpx peer opens a call with a request, bytes that are no message, a stream message, a response or a "
                                   "structurally invalid value, then writes stream messages, end markers, a request again, a response, a message of an "
                                   "undefined type, bytes that do not parse, or closes; the handler runs exactly once and only for a request, its "
                                   "Receive calls return what the model says (messages in order, a failed Receive for bytes that do not parse and then "
                                   "on with the stream, a failure that sticks for a message of another type, end for the marker or the close), the peer "
                                   "gets the handler's response unless it closed the call; after every sequence two streaming calls of a well-behaved "
                                   "client on its own connection are served as if nothing had happened"},
        "call_scripts": {"model": "SvcCall.tla (refines Rpc.tla, checked by TLC)", "executed": ssum["scripts"], "generated": ssum["of"],
                         "with_lost_connection": ssum.get("lost", 0),
                         "steps": ssum["steps"], "by_kind": ssum["by_kind"],
                         "rule": "one call per script: kinds unary / oneway / client stream / server stream / bidirectional x handler outcome OK / "
                                 "application code+message / panic x every order of the two sides' operations (<= 1 message per direction "
                                 "exhaustively, <= 3 by simulation in the thorough tier); after every step the operation's result must be the "
                                 "script's: request bytes at the handler, each streamed message in order, End only after everything, the "
                                 "caller's outcome = its handler's (result bytes, code and message, non-OK after a panic), messages not "
                                 "received before Response are skipped; scripts in which a proxy cuts the connection at any point of the call: "
                                 "the caller gets a non-OK status (or exactly its handler's outcome if that was returned before the loss), "
                                 "nothing hangs, and the client completes a call again right afterwards; scripts in which a second goroutine frees a "
                                 "streaming call while the first one waits in Response (no panic, no hang, later calls unaffected)"},
        "wake_schedules_replayed": wsum["schedules"],
        "states": states, "transitions": trans, "traces_validated_against_impl": calls, "samples": samples, "events": events,
        "invariants": ["HandlerAtMostOnce", "OkOnlyIfServerSentOk", "StreamPrefix", "AllHandled (at every run end)"],
        "scripts": ["unary OK", "application-defined code+message", "panic", "standard error code", "early responder while the client "
                    "streams", "server streaming", "bidirectional echo until end", "oneway (skip response)"],
        "explanation": "per run 24 calls issued concurrently by 1-4 goroutines over 1-2 connections (lz4 on/off, windows 64 B/4 KiB/1 MiB); "
                       "every event of both ends is validated against Rpc: a handler runs at most once and only for an issued call; OK "
                       "only with the result of its own handler run; non-OK code and message are those its handler returned (or any "
                       "non-OK after a panic); stream messages arrive in order before the end; oneway calls get no response; at the end "
                       "of each run every issued call was handled exactly once.",
    }
    ctx.assumptions = ["one call per request; calls within a run are independent channels",
                       "transport faults during the concurrent trace runs are not injected (the scripted calls lose their connection at every point)"]


def replay(ctx, path):
    from vlib.common import say
    say(open(path).read()[:4000])
