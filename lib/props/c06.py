"""C06 ending one channel never disturbs the connection or other channels: MpxLife.tla exhaustive (VIEW without the
schedule) + gate-scheduled replay of simulated behaviours on the real code (DESIGN 4 C06)."""
import json
import os
from concurrent.futures import ThreadPoolExecutor

from vlib import tlc
from vlib.common import Broken

CFGS = ["a", "b", "c", "d", "e"]   # a: user Free, no closer; b: user Free + connection close; c: connection close, user keeps channel; d, e: as a, b with SendAndClose before Free


def replay_parallel(ctx, binp, path, procs=8, timeout=1500):
    def one(k):
        p = ctx.run([binp, "-in", path, "-every", str(procs), "-seed", str(k)], timeout=timeout)
        if p.returncode != 0:
            raise Broken("mlife failed: %s" % p.stderr[-1500:])
        return p.stdout
    outs = []
    with ThreadPoolExecutor(max_workers=procs) as ex:
        for o in ex.map(one, range(procs)):
            outs.append(o)
    mism, total, model_panics = [], 0, 0
    for o in outs:
        for line in o.splitlines():
            d = json.loads(line)
            if "summary" in d:
                total += d["summary"]["schedules"]
                model_panics += d["summary"]["model_predicts_panic"]
            else:
                mism.append(d)
    return total, mism, model_panics


def run(ctx):
    ctx.level = "model_checking"
    states = trans = 0
    for c in CFGS:
        r = tlc.run_tlc(ctx.scratch("mc-" + c), "MpxLifeMC.tla", "MpxLife_%s.cfg" % c, timeout=900, workers=8,
                        out_name="mc_%s.out" % c, heap="6g", coverage=not ctx.quick())
        tlc.require_ok(r, "MpxLife/" + c)
        states += r.distinct
        trans += r.generated
    num = 60 if ctx.quick() else 1500
    binp = ctx.go_build("mlife")
    total = 0
    samples = []
    for c in CFGS:
        wd = ctx.scratch("sim-" + c)
        r = tlc.run_tlc(wd, "MpxLifeMC.tla", "MpxLife_sim_%s.cfg" % c, timeout=900, workers=4,
                        simulate="num=%d" % num, depth=80, seed=ctx.seed, out_name="sim_%s.out" % c, heap="4g")
        if r.returncode != 0:
            raise Broken("TLC simulation failed for MpxLife_sim_%s: %s" % (c, r.out[-1500:]))
        n, mism, mp = replay_parallel(ctx, binp, r.outfile)
        if n == 0:
            raise Broken("no schedules replayed for config " + c)
        if mp:
            raise Broken("the specification predicts a panic in %d schedules of config %s: specification and code disagree "
                         "about the design; fix one of them" % (mp, c))
        total += n
        for m in mism:
            if m["sig"].startswith("harness"):
                raise Broken("harness: %s (%s)" % (m["detail"], m["sched"]))
            ctx.violation(m["sig"], "%s | frames in flight %s | schedule: %s" % (m["detail"], m["frames"], m["sched"]), m)
        for rec in tlc.payload_lines(r.outfile):
            samples.append({"config": c, "frames": rec["frames"], "schedule": [":".join(s) for s in rec["sched"]]})
            break
    # free-running traffic in which channels are ended while their own side is still inside Send, over a network that
    # stalls once per run (write queues fill up, Send and Free block on them): panics, crashes and hangs only
    rough_runs = 0
    tb = ctx.go_build("mtraffic")
    for sd in ([ctx.seed] if ctx.quick() else [ctx.seed, ctx.seed + 1, ctx.seed + 2]):
        n = 80 if ctx.quick() else 400
        wd = ctx.scratch("rough-%d" % sd)
        p = ctx.run([tb, "-out", os.path.join(wd, "t.ndjson"), "-runs", str(n), "-seed", str(sd), "-rough", "-stall"], timeout=3000)
        if p.returncode != 0:
            raise Broken("mtraffic -rough failed: %s" % p.stderr[-2000:])
        for line in p.stdout.splitlines():
            if not line.startswith("{"):
                continue
            d = json.loads(line)
            if "summary" in d:
                rough_runs += d["summary"]["runs"]
            elif d["sig"] == "harness":
                raise Broken("mtraffic: " + d["detail"])
            else:
                ctx.violation("rough:" + d["sig"], "%s | %s" % (d.get("detail"), d.get("config", "")), d)
    # an ending call that is blocked on the full write queue while the peer ends the same channel or the connection goes
    from vlib import wakefam
    br, bsum = wakefam.run_blocked(ctx)
    states += br.distinct
    ctx.coverage = {
        "blocked_on_full_queue": {"model": "MpxBlocked.tla", "schedules_replayed": bsum["schedules"], "conclusive": bsum["conclusive"],
                                  "rule": "Send / SendAndClose / Free on a channel whose connection's write queue is full (raw peer not reading), "
                                          "every order of {the call, the peer's close frame for that channel, the peer reading again or dropping "
                                          "the connection}: the call waits and returns exactly when the model says, with its status class, no panic; "
                                          "after a drain the peer holds every filler frame intact and in order and the model's number of frames of the channel"},
        "rough_traffic_runs": rough_runs,
        "states": states, "transitions": trans, "traces_validated_against_impl": total, "samples": samples,
        "invariants": ["NoLibraryPanic", "NoUserPanic", "NoUseAfterRelease", "RefsNonNegative", "ReleasedOnce", "NoPrematureRelease", "EndedClean"],
        "configs": {"a": "user Free vs send loop vs receive loop (frames in flight: data*, close)",
                    "b": "the same plus connection close (via receive-loop end or send-loop failure)",
                    "c": "connection close vs peer close while the user keeps the channel; later user calls must not panic",
                    "d": "user SendAndClose then Free vs send loop vs receive loop",
                    "e": "the same plus connection close"},
        "explanation": "exhaustive TLC over all interleavings of the atomic operations on {reference count, state pointer, closed flag, "
                       "channel map, write queue} of one channel for six in-flight frame sequences; simulated behaviours are executed "
                       "on the real client connection against a scripted raw server: the verif gates park user, send loop, receive loop "
                       "and closer and the controller releases them in the model's order; each actor must wait at the gate the model "
                       "names; afterwards: no recovered/logged panic, connection open, sibling channel echo works, later user calls "
                       "do not panic",
    }
    ctx.assumptions = ["one ending channel plus one sibling; two concurrent user goroutines on the same channel are not scheduled by gates",
                       "SendAndClose as the ending call shares closeUser's operations in a different order and is covered by C03 traces"]


def replay(ctx, path):
    from vlib.common import say
    say(json.dumps(json.load(open(path)), indent=1)[:4000])
