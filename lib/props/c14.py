"""C14 compiler output always compiles; invalid schemas are rejected cleanly: SchemaSem.tla gives the rules of the language as a
function Violations(world); TLC enumerates one mutation operator per rule at every applicable site of a base schema plus the
accepted families; the real `spec generate` must reject exactly the mutants, naming the element, and everything it accepts
must pass `go build` (DESIGN 4 C14)."""
from vlib import langfam
from vlib.common import Broken


def run(ctx):
    ctx.level = "model_checking"
    states = 0
    recs = []
    fams = {}
    for fam in ("mutant", "lexical", "either", "svc", "single"):
        r, rs = langfam.records(ctx, fam)
        if fam == "lexical" and ctx.quick():
            rs = rs[ctx.seed % 3::3]
        states += r.distinct
        fams[fam] = len(rs)
        recs += rs
    if not ctx.quick():
        for sd in (ctx.seed, ctx.seed + 1):
            r, rs = langfam.records(ctx, "multi", simulate=150, depth=8, seed=sd, max_fields=5, limit=300)
            fams["multi"] = fams.get("multi", 0) + len(rs)
            recs += rs
    pl = langfam.Pipeline(ctx, "c14")
    pl.add(recs)
    pl.compile_all()
    pl.go_build(drive=False)
    rejected = accepted = compiled = 0
    rules = {}
    for c in pl.cases:
        rec = c["rec"]
        v = rec["verdict"]
        if c["exit"] is None:
            ctx.violation("hang:" + (rec["rule"] or v), "%s: spec generate did not finish: %s" % (rec["label"], c["stderr"]), slim(c))
            continue
        if langfam.unclean(c):
            ctx.violation("panic:" + (rec["rule"] or v), "%s: spec generate panicked: %s" % (rec["label"], c["stderr"][-600:]), slim(c))
            continue
        errs = "\n".join(sum(c["build_errors"].values(), []))[:900]
        if v == "reject":
            rules[rec["rule"]] = rules.get(rec["rule"], 0) + 1
            if c["exit"] == 0:
                how = "and the generated code does not compile: " + errs if c["build_errors"] else "(the generated code compiles)"
                ctx.violation("accepted-invalid:%s" % rec["rule"],
                              "%s: the compiler exited 0 on a schema that breaks rule %s at %s %s" % (rec["label"], rec["rule"], rec["name"], how), slim(c))
            else:
                rejected += 1
                if not langfam.names_element(c):
                    ctx.violation("error-does-not-name:%s" % rec["rule"],
                                  "%s: the error does not name the offending element %r: %s" % (rec["label"], rec["name"], c["stderr"][-300:]), slim(c))
        elif v == "accept":
            if c["exit"] != 0:
                ctx.violation("rejected-valid:" + shape_sig(rec), "%s: valid schema rejected: %s" % (rec["label"], c["stderr"][-400:]), slim(c))
                continue
            accepted += 1
            if c["dep_fail"]:
                ctx.violation("rejected-valid:imported", "%s: imported package %s rejected: %s" % (rec["label"], c["dep_fail"][0], c["dep_fail"][2][-300:]), slim(c))
            elif c["build_errors"]:
                ctx.violation("uncompilable:" + shape_sig(rec), "%s: generated code does not compile: %s" % (rec["label"], errs), slim(c))
            else:
                compiled += 1
        else:  # either: reject cleanly or generate code that compiles
            if c["exit"] == 0 and c["build_errors"]:
                ctx.violation("uncompilable:" + shape_sig(rec), "%s: accepted and the generated code does not compile: %s" % (rec["label"], errs), slim(c))
            elif c["exit"] == 0:
                compiled += 1
            else:
                rejected += 1
    if (rejected == 0 or compiled == 0) and not ctx.violations:
        raise Broken("vacuous: %d rejected, %d compiled" % (rejected, compiled))
    ctx.coverage = {
        "states": states, "transitions": states, "traces_validated_against_impl": len(pl.cases), "exhaustive": ctx.quick(),
        "schemas_by_family": fams, "mutants_by_rule": rules, "rejected_cleanly": rejected, "accepted": accepted, "accepted_and_compiled": compiled,
        "samples": [c["rec"]["label"] for c in pl.cases[:3]],
        "explanation": "SchemaSem.tla: Violations(world) over packages/files/definitions (duplicate definitions, fields, tags, enum names and "
                       "numbers, struct fields, methods, imports, options; zero and out-of-range tags; enum values above int32; missing zero "
                       "value; unknown and service-typed field/element/struct types; non-value struct fields; self-containing structs "
                       "(direct and mutual); non-message channel types; malformed method signatures; circular and missing imports). Family lexical: "
                       "text that is not a token (open comment, open string, bad escape, bad octal, float, char, raw string, stray character, "
                       "overflowing integer) inserted at every token boundary of the base schema: the compiler must not exit successfully. Invariant "
                       "VerdictConsistent: every mutant breaks exactly the rule of its operator at the named element, every generated schema "
                       "of the accepting families breaks none. Each record is rendered from its token sequence, compiled by the real "
                       "`spec generate`, and everything generated is compiled by `go build`.",
    }
    ctx.assumptions = ["an error that carries file:line:column is taken to name the element (syntax-level rejections)",
                       "negative enum numbers are outside the grammar and not generated"]


def shape_sig(rec):
    fs = []
    for f in rec["pkgs"][0]["files"]:
        for d in f["ast"]["defs"]:
            if d["name"] == "Rec":
                fs = [langfam.type_str(x["type"]).replace("b2.", "pkgb.") for x in d["fields"]]
    return "%s:%s%s" % (rec["shape"], "svc:" if rec["svc"] else "", ",".join(sorted(set(fs)))[:60])


def slim(c):
    rec = c["rec"]
    return {"label": rec["label"], "verdict": rec["verdict"], "rule": rec["rule"], "name": rec["name"], "exit": c["exit"], "stderr": c["stderr"][-1500:],
            "sources": {p["id"] + "/" + f["name"]: langfam.render(f["tokens"], c["id"]) for p in rec["pkgs"] for f in p["files"]}}


def replay(ctx, path):
    from vlib.common import say
    say(open(path).read()[:6000])
