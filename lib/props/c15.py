"""C15 schema parser records exactly what the source says, or errors: SchemaLang.tla (mode parse) generates files with their
token sequences; rendered with seeded whitespace/comments and parsed by the real parser; token mutants must not panic and
accepted ones must be fixed points of print -> parse (DESIGN 4 C15)."""
import json

from vlib import tlc
from vlib.common import Broken


def run(ctx):
    ctx.level = "model_checking"
    cfg = "SchemaLang_parse2.cfg" if ctx.quick() else "SchemaLang_parse3.cfg"
    r = tlc.run_tlc(ctx.scratch("lang"), "SchemaLang.tla", cfg, timeout=2400, workers=8, out_name="parse.out", heap="10g")
    tlc.require_ok(r, "SchemaLang/" + cfg)
    binp = ctx.go_build("lparse")
    seeds = [ctx.seed] if ctx.quick() else [ctx.seed, ctx.seed + 1]
    files = mutants = accepted = 0
    for sd in seeds:
        p = ctx.run([binp, "-in", r.outfile, "-seed", str(sd), "-mutants", "3" if ctx.quick() else "6"], timeout=3000)
        if p.returncode != 0:
            raise Broken("lparse failed: %s" % p.stderr[-2000:])
        summary = None
        for line in p.stdout.splitlines():
            if not line.startswith("{"):
                continue
            d = json.loads(line)
            if "summary" in d:
                summary = d["summary"]
            elif d["sig"] == "harness":
                raise Broken("harness: " + d["detail"])
            else:
                ctx.violation(d["sig"], "%s | source: %s" % (d["detail"], d["source"][:400]), d)
        if not summary or summary["files"] == 0:
            raise Broken("lparse parsed nothing")
        files += summary["files"]
        mutants += summary["mutants"]
        accepted += summary["mutants_accepted"]
    samples = []
    for rec in tlc.payload_lines(r.outfile):
        toks = [t if isinstance(t, str) else json.dumps(t["str"]) for t in rec["tokens"]]
        if len(toks) > 20:
            samples.append(" ".join(toks)[:300])
        if len(samples) >= 3:
            break
    ctx.coverage = {
        "states": r.distinct, "transitions": r.generated, "traces_validated_against_impl": files, "samples": samples,
        "token_mutants": mutants, "token_mutants_accepted_and_reprinted": accepted, "exhaustive": True,
        "explanation": "files = (import block x option block variants) x every sequence of up to N definitions from a pool of 20 "
                       "(messages with every builtin kind, any, message, references, imported references, lists of each, keyword-named "
                       "fields, optional trailing semicolon, tags 0 / 65535 / 65536 / 2^63-1; enums incl. 2^31 and 2^63-1; structs; "
                       "services and subservices with every method shape: no/typed/field-list input, oneway, typed/field-list output, "
                       "channel in/out/both, trailing commas, keyword-named methods). Each file is rendered from its token sequence with "
                       "seeded spaces, tabs, CRLF, line and block comments and parsed by the real parser; the tree must equal the "
                       "generated abstract syntax (names, kinds, list-ness, qualified references, tags, enum numbers, method input/"
                       "output/channel/oneway, source order). Token mutants (delete, duplicate, swap, foreign token, out-of-range "
                       "literal, unterminated string): no panic; accepted => print -> parse fixed point.",
    }
    ctx.assumptions = ["byte-level fuzzing of the lexer is outside the technique family",
                       "the harness maps builtin type names to kind numbers with its own table"]


def replay(ctx, path):
    from vlib.common import say
    say(open(path).read()[:4000])
