"""C02 decoding arbitrary bytes never panics / reads out of bounds: model-generated hostile inputs under guard pages (DESIGN 4 C02)."""
from vlib import wirefam as wf


def run(ctx):
    ctx.level = "exploration"
    level = 1 if ctx.quick() else 2
    modes = ["mutant", "short", "bytes2", "value"]
    evals = 0
    accepted = 0
    samples = []
    states = 0
    for mode in modes:
        r = wf.gen(ctx, mode, level if mode in ("mutant", "short") else 1)
        states += r.distinct
        summary, mism = wf.execute(ctx, r.outfile, timeout=1800 if ctx.quick() else 7200)
        wf.report(ctx, mism, {"C02"})
        evals += sum(summary["cases"].values())
        accepted += summary.get("accepted_by_parser", 0)
        samples += wf.samples(r.outfile, 2, keys=("mode", "how", "x", "spec"))
    ctx.coverage = {
        "evaluations": evals, "distinct_nontrivial": states,
        "rule": "TLC enumerates (a) every single-byte replacement by a byte class (all type codes, varint markers and neighbours, small "
                "sizes), every front truncation, deletion and insertion on the encodings of the bounded value set, (b) every string of "
                "length <= 3 over the class alphabet, (c) every byte string of length <= 2; distinct = distinct TLC states (distinct "
                "inputs); every input is non-trivial (non-empty apart from one). Each input is placed directly after and directly "
                "before a PROT_NONE page and fed to every public read entry point and every accessor of what they return; a fault, "
                "panic, size outside [0,len] or returned slice outside the input is a violation",
        "samples": samples, "accepted_by_parser": accepted, "spec_states": states, "exhaustive": True,
    }
    ctx.assumptions = ["memory safety is observed under guard pages, not proved",
                       "coverage-guided fuzzing is outside the technique family and not used",
                       "generated struct decoders are exercised under C05"]


def replay(ctx, path):
    import json
    from vlib.common import say
    say(json.dumps(json.load(open(path)), indent=1)[:4000])
