"""C05 generated Go code is a faithful translation of the schema: SchemaSem.tla gives every accepted schema its meaning (field ->
(tag, wire type), message value -> VMsg, struct -> VStruct in declaration order, enum -> int32) and the bytes WireFormat.tla
assigns to each value; the real `spec generate` output is compiled and its writers, readers, struct and enum codecs are driven
with those values and compared with those bytes and with the dynamic tag-based readers (DESIGN 4 C05)."""
from vlib import langfam
from vlib.common import Broken


def run(ctx):
    ctx.level = "model_checking"
    states = 0
    recs = []
    fams = {}
    for fam in ("single", "svc"):
        r, rs = langfam.records(ctx, fam)
        states += r.distinct
        fams[fam] = len(rs)
        recs += rs
    sims = [(ctx.seed, 40, 4)] if ctx.quick() else [(ctx.seed, 150, 3), (ctx.seed + 1, 150, 6), (ctx.seed + 2, 100, 10)]
    for sd, n, k in sims:
        r, rs = langfam.records(ctx, "multi", simulate=n, depth=k + 2, seed=sd, max_fields=k, limit=2 * n)
        fams["multi"] = fams.get("multi", 0) + len(rs)
        recs += rs
    pl = langfam.Pipeline(ctx, "c05")
    # services: scripts of single calls (SvcCall.tla) executed through the generated client stubs, handler dispatch, typed
    # channels and subservice chain of every schema of family svc
    from vlib import svcfam
    sr, sfiles = svcfam.scripts(ctx)
    states += sr.distinct
    pl.svc_scripts = (sfiles[0], 240 if ctx.quick() else 3000, ctx.seed)
    pl.add(recs)
    pl.compile_all()
    pl.go_build(drive=True)
    summary = pl.drive()
    driven = 0
    for c in pl.cases:
        rec = c["rec"]
        if c["exit"] != 0 or c["dep_fail"]:
            # whether valid schemas are accepted is C14's question; here it only reduces what is driven
            ctx.violation("rejected-valid", "%s: valid schema rejected: %s" % (rec["label"], (c["stderr"] or "")[-300:]), slim(c))
            continue
        if not c.get("deterministic", True):
            ctx.violation("nondeterministic-output", "%s: generating over the output of a larger version of the package and generating into an "
                          "empty directory gave different files" % rec["label"], slim(c))
        if c["build_errors"]:
            errs = "\n".join(sum(c["build_errors"].values(), []))[:900]
            sig = "identifier-mapping" if list(c["build_errors"].keys()) == ["reg"] else "uncompilable"
            ctx.violation(sig, "%s: %s" % (rec["label"], errs), slim(c))
            continue
        driven += 1
        for f in c["findings"]:
            ctx.violation(f["sig"], f["detail"], dict(slim(c), finding=f))
    if (driven == 0 or summary["checks"] == 0) and not ctx.violations:     # with violations the run is not vacuous, it failed
        raise Broken("vacuous: nothing driven")
    if summary.get("svc_cases", 0) == 0 and not ctx.violations:
        raise Broken("vacuous: no generated service was executed")
    ctx.coverage = {
        "states": states, "transitions": states, "traces_validated_against_impl": driven, "value_checks": summary["checks"],
        "services_executed": {"schemas": summary.get("svc_cases", 0), "scripts_per_schema": summary.get("svc_scripts", 0), "model": "SvcCall.tla"},
        "schemas_by_family": fams, "samples": [c["rec"]["label"] for c in pl.cases[:2] + pl.cases[-2:]],
        "explanation": "Schemas: every field type of the pool (15 scalars, any, message, local enum/struct/nested struct/message, lists of "
                       "scalars, bytes, strings, enums, structs and messages, imported enum/struct/message and lists of them) as the single "
                       "field of Rec for each import shape (none, plain, alias) with keyword and snake-case names and tags 1..65535; random "
                       "multi-field messages built field by field by the specification's transition system (unused names and tags, any order); "
                       "packages split over one or two files; with and without services. Per schema: for several value assignments (two values "
                       "per type, mixed, unset) generated writer -> bytes must equal Encode(VMsg(...)) of the specification; the dynamic readers "
                       "must see every field under its declared tag and wire type; generated Parse/Open + accessors + Has* must return the values; "
                       "nested messages, lists and structs are compared recursively; struct Encode/Decode inverse and equal to the specification's "
                       "bytes (also behind a prefix); enum constants, String, codecs and int32 wire type; regenerating gives identical files.",
    }
    ctx.assumptions = ["the service of family svc has one method per method shape of the language; its Go implementation in the harness is written against "
                       "the generated interfaces by hand (lgenrt/svc.go.tmpl) and fails to compile if they differ from the schema",
                       "names are taken from a table whose Go identifiers are distinct (the statement's precondition)"]


def slim(c):
    rec = c["rec"]
    return {"label": rec["label"], "exit": c["exit"], "stderr": (c["stderr"] or "")[-800:],
            "sources": {p["id"] + "/" + f["name"]: langfam.render(f["tokens"], c["id"]) for p in rec["pkgs"] for f in p["files"]}}


def replay(ctx, path):
    from vlib.common import say
    say(open(path).read()[:6000])
