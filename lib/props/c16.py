"""C16 schema evolution through the dynamic API: writer tag set/order x reader tag set, Copy/Merge through a partial writer (DESIGN 4 C16)."""
from vlib import wirefam as wf


def run(ctx):
    ctx.level = "model_checking"
    r = wf.gen(ctx, "evolve", 1)
    summary, mism = wf.execute(ctx, r.outfile)
    wf.report(ctx, mism, {"C16"})
    ctx.coverage = {
        "states": r.distinct, "transitions": r.generated, "traces_validated_against_impl": summary["cases"].get("evolve", 0),
        "samples": wf.samples(r.outfile, 3, keys=("mode", "written", "reader", "enc")),
        "invariants": ["TagIndependence"], "exhaustive": True,
        "explanation": "every message over tags {1,2,3,255,256} (each tag with its own field kind: int, string, list, nested message, "
                       "uint64) in every write order (all permutations of every subset) x every non-empty reader tag set: the "
                       "specification predicts presence and value per reader tag (TagIndependence checked by TLC); the library must "
                       "agree, absent tags read as zero/empty without error, and Copy and Merge through a writer that rewrites only "
                       "the tags it knows preserve all other fields byte for byte. Generated-code evolution is covered under C05.",
    }
    ctx.assumptions = ["generated code of two schema versions is exercised by the C05 check (same accessor map)"]


def replay(ctx, path):
    import json
    from vlib.common import say
    say(json.dumps(json.load(open(path)), indent=1)[:4000])
