"""C16 schema evolution: (a) dynamic API: writer tag set/order x reader tag set, Copy/Merge through a partial writer;
(b) generated code: SchemaSem.tla derives version B of a schema from version A by add / remove / rename / reorder edits that keep
the tags of surviving fields; both versions go through the real generator and compiler, messages written by A's generated
writer are read by B's generated reader (common fields unchanged, unknown fields ignored, absent fields zero with presence false)
and merged through B's writer back to A (unknown fields preserved) (DESIGN 4 C16)."""
from vlib import langfam, wirefam as wf
from vlib.common import Broken


def run(ctx):
    ctx.level = "model_checking"
    r = wf.gen(ctx, "evolve", 1)
    summary, mism = wf.execute(ctx, r.outfile)
    wf.report(ctx, mism, {"C16"})
    # (b) generated code of both versions
    recs = []
    gstates = 0
    if ctx.quick():
        g, rs = langfam.records(ctx, "evolve", simulate=20, depth=4, seed=ctx.seed, max_fields=2, limit=36)
        recs += rs
    else:
        g, rs = langfam.records(ctx, "evolve", max_fields=1)
        gstates += g.distinct
        recs += rs
        for sd in (ctx.seed, ctx.seed + 1):
            g, rs = langfam.records(ctx, "evolve", simulate=60, depth=5, seed=sd, max_fields=3, limit=150)
            recs += rs
    # the same pair can be reached twice in a simulation
    seen, uniq = set(), []
    for rec in recs:
        key = str(rec["pkgs"][0]["files"][0]["tokens"]) + str(rec["evolve"]["pkgs"][0]["files"][0]["tokens"])
        if key not in seen:
            seen.add(key)
            uniq.append(rec)
    pl = langfam.Pipeline(ctx, "c16")
    pl.add(uniq)
    pl.compile_all()
    pl.go_build(drive=True)
    dsum = pl.drive()
    pairs = 0
    edits = {}
    for c in pl.cases:
        rec = c["rec"]
        if c["exit"] != 0 or c["dep_fail"] or c["build_errors"]:
            errs = (c["stderr"] or "")[-300:] + "\n".join(sum(c["build_errors"].values(), []))[:600]
            ctx.violation("version-not-generated", "%s: a schema version was rejected or its code does not compile: %s" % (rec["label"], errs),
                          {"label": rec["label"]})
            continue
        if rec.get("evolve_link"):
            pairs += 1
            for e in rec["evolve_link"]["edits"]:
                edits[e.split()[0]] = edits.get(e.split()[0], 0) + 1
        for f in c["findings"]:
            ctx.violation("generated:" + f["sig"], f["detail"], {"label": rec["label"], "finding": f,
                          "sources": {p["id"] + "/" + x["name"]: langfam.render(x["tokens"], c["id"]) for p in rec["pkgs"] for x in p["files"]}})
    if (pairs == 0 or dsum.get("evolve_pairs", 0) == 0) and not ctx.violations:
        raise Broken("vacuous: no schema version pair was driven")
    ctx.coverage = {
        "states": r.distinct + gstates, "transitions": r.generated, "traces_validated_against_impl": summary["cases"].get("evolve", 0) + pairs,
        "generated_code_version_pairs": pairs, "edits_applied": edits, "generated_value_checks": dsum["checks"],
        "samples": wf.samples(r.outfile, 3, keys=("mode", "written", "reader", "enc")),
        "invariants": ["TagIndependence"], "exhaustive": True,
        "explanation": "every message over tags {1,2,3,255,256} (each tag with its own field kind: int, string, list, nested message, "
                       "uint64) in every write order (all permutations of every subset) x every non-empty reader tag set: the "
                       "specification predicts presence and value per reader tag (TagIndependence checked by TLC); the library must "
                       "agree, absent tags read as zero/empty without error, and Copy and Merge through a writer (at the root, and nested in a parent that has written fields with the same tags) that rewrites only "
                       "the tags it knows preserve all other fields byte for byte. Generated code: schema pairs (A, B) with B derived by 1-3 "
                       "edits (add a field with a fresh tag, remove, rename, reorder) from two base messages covering scalars, strings, "
                       "bytes, any, enums, structs, nested and imported messages and lists; 4 value assignments per pair written by A's "
                       "generated writer, read by B's generated reader, merged through B's generated writer and read back by A.",
    }
    ctx.assumptions = ["edits never reuse the tag of a removed field with another type (the statement's 'keeping tags')"]


def replay(ctx, path):
    import json
    from vlib.common import say
    say(json.dumps(json.load(open(path)), indent=1)[:4000])
