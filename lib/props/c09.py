"""C09 transport failures terminate cleanly: the C03 driver behind a cutting TCP proxy, one cut offset per run, traces validated
against MpxChanTrace.tla with the Fail action; recovery probe after every fault (DESIGN 4 C09)."""
from vlib import chanfam as cf
from vlib import wakefam


def run(ctx):
    ctx.level = "fault_enumeration"
    if ctx.quick():
        rounds = [(110, ctx.seed, 7)]
    else:
        rounds = [(900, ctx.seed, 1), (900, ctx.seed + 1, 1), (300, ctx.seed + 2, 13)]
    events = runs = states = 0
    samples = []
    for n, seed, step in rounds:
        wd, trace, summary, findings = cf.record(ctx, "cut%d" % seed, n, seed, cut=True, cutstep=step, timeout=3000)
        for f in findings:
            ctx.violation(f["sig"], "%s | config: %s" % (f["detail"], f["config"]), f)
        r, rejected = cf.validate(ctx, wd, trace)
        states += r.distinct
        events += summary["events"]
        runs += summary["runs"]
        if rejected is not None:
            ev, context = cf.explain_rejection(trace, rejected)
            path = ctx.save_replay("rejected-trace-seed%d.ndjson" % seed, open(trace).read())
            ctx.violation("trace-rejected:%s" % ev.get("e"),
                          "trace with a transport fault is not a behaviour of MpxChan: event %d %s; preceding: %s" % (rejected, ev, context[-12:]),
                          {"trace": path, "event_index": rejected, "event": ev})
        if not samples:
            samples = [{"run": k + 1, "cut_offset_range": [k * step, k * step + step - 1]} for k in (0, 1, n - 1)]
    cr, csum = wakefam.run_create(ctx)
    br, bsum = wakefam.run_blocked(ctx)
    # rpc calls whose connection is lost at any point of the call (scripts of SvcCall.tla, a proxy cuts the connection)
    from vlib import svcfam
    sr, sfiles = svcfam.scripts(ctx, drop=True)
    dsum = svcfam.run_rpc(ctx, sfiles[1:], 1500 if ctx.quick() else 20000)
    # the client against a server that spoils the handshake or the stream at any step (scripts of MpxDial.tla)
    from vlib import dialfam
    xr, xsum, xmism = dialfam.run_scripts(ctx, 6 if ctx.quick() else 7)
    for m in xmism:
        ctx.violation("dial:" + m["sig"], "%s | script: %s" % (m["detail"], m["script"]), m)
    ctx.coverage = {
        "client_against_scripted_servers": {"model": "MpxDial.tla", "scripts_replayed": xsum["scripts"], "steps": xsum["steps"],
                                            "spec_states": xr.distinct,
                                            "rule": "every sequence of server steps (protocol line good / foreign / padded / hang-up, connect response accepted / "
                                                    "lz4 / refused / unknown version / unknown compression / another message / malformed / hang-up, then data, close, "
                                                    "channels opened by the server, stray frames, eight kinds of hostile frames) interleaved with the client's "
                                                    "Channel / Send / Receive calls up to the bound; after every step: a waiting Channel() has returned what the model "
                                                    "says (OK only on an accepted connection), the client has closed a spoiled connection and written nothing more on it, "
                                                    "Receive ends with a failure, the close listener has run once with the closed flag set; afterwards the same client "
                                                    "completes an echo with a well-behaved server"},
        "rpc_calls_losing_their_connection": {"model": "SvcCall.tla", "executed": dsum["scripts"], "generated": dsum["of"],
                                              "rule": "no operation of either side hangs, the caller never gets OK unless its handler returned OK "
                                                      "before the loss (then with its bytes), and the on-demand client completes a call right afterwards"},
        "blocked_on_full_queue": {"model": "MpxBlocked.tla", "schedules_replayed": bsum["schedules"], "conclusive": bsum["conclusive"],
                                  "rule": "a Send / SendAndClose / Free blocked on the full write queue returns when the connection is dropped "
                                          "(non-OK for the sends, silently for Free), in every order with the peer's close of that channel"},
        "create_during_close": {"model": "MpxCreate.tla", "schedules_replayed": csum["schedules"], "steps": csum["steps"],
                                "spec_states": cr.distinct,
                                "rule": "every interleaving of Conn.Channel's check / insert / re-check / remove steps with the closing "
                                        "connection's flag / sweep steps, replayed on a real connection whose peer drops it; the call returns "
                                        "what the model says and every channel handed out or already open is terminated"},
        "evaluations": runs, "distinct_nontrivial": runs,
        "rule": "one run per cut offset k (k-th run cuts after a byte count in [k*step, k*step+step)) in a direction chosen per run "
                "(client->server or server->client); offsets cover the protocol line, the handshake messages, frame boundaries, "
                "length prefixes and bodies of plain and lz4 streams; every run is a distinct (offset, direction, configuration) "
                "and non-trivial (traffic on 1-3 channels in both directions, on-demand or auto-connect client)",
        "samples": samples, "events": events, "spec_states": states,
        "checked_per_run": ["every Send/Receive/Channel call returns within 10 s", "no partial or corrupt payload is delivered",
                            "received messages are a prefix of the sent ones (TLC, Fail action enabled)", "server handlers return",
                            "no panic logged or recovered", "after the fault: on-demand client completes an echo on its next calls; "
                            "auto-connect client reports Connected again and completes an echo"],
    }
    ctx.assumptions = ["faults are full cuts of the TCP connection by a proxy; half-close and reset are not distinguished",
                       "RPC calls in flight during a fault are exercised by the C04 driver"]


def replay(ctx, path):
    from vlib.common import say
    say(open(path).read()[:4000])
