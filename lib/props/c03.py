"""C03 mpx channels deliver exactly once, in order, uncorrupted: API-level traces of real concurrent client/server traffic
validated by TLC against MpxChanTrace.tla (DESIGN 4 C03)."""
from vlib import chanfam as cf
from vlib import tlc


def run(ctx):
    ctx.level = "model_checking"
    rounds = [(150, ctx.seed, ())] if ctx.quick() else [(400, ctx.seed + k, ()) for k in range(4)]
    # lagging receivers: backlogs of tens of MiB (or thousands of messages) on one channel before anything is received
    rounds.append((6 if ctx.quick() else 30, ctx.seed + 100, ("-lag",)))
    # a transport that delivers the byte stream in segments of 1-7 bytes (frame headers straddle reads), mostly without compression
    rounds.append((40 if ctx.quick() else 200, ctx.seed + 200, ("-frag",)))
    states = trans = events = runs = 0
    samples, cfgs = [], []
    for n, seed, extra in rounds:
        wd, trace, summary, findings = cf.record(ctx, "s%d" % seed, n, seed, extra=extra)
        for f in findings:
            ctx.violation(f["sig"], "%s | config: %s" % (f["detail"], f["config"]), f)
        r, rejected = cf.validate(ctx, wd, trace)
        states += r.distinct
        trans += r.generated
        events += summary["events"]
        runs += summary["runs"]
        cfgs += summary["configs"][:2]
        if rejected is not None:
            ev, context = cf.explain_rejection(trace, rejected)
            path = ctx.save_replay("rejected-trace-seed%d.ndjson" % seed, open(trace).read())
            ctx.violation("trace-rejected:%s" % ev.get("e"),
                          "recorded trace is not a behaviour of MpxChan: event %d %s cannot happen; preceding events of that channel: %s"
                          % (rejected, ev, context[-12:]), {"trace": path, "event_index": rejected, "event": ev})
        if not samples:
            with open(trace) as fh:
                samples = [fh.readline().strip() for _ in range(8)]
            # binding demonstration: one corrupted receive event must make TLC reject the trace
            import json, os
            evs = [json.loads(l) for l in open(trace)]
            for e in evs:
                if e["e"] == "rv" and e["m"] >= 2:
                    e["m"] -= 1
                    break
            bad = os.path.join(wd, "corrupted.ndjson")
            with open(bad, "w") as fh:
                for e in evs:
                    e.pop("rk", None)
                    fh.write(json.dumps(e) + "\n")
            _, rej = cf.validate(ctx, wd, bad)
            if rej is None:
                from vlib.common import Broken
                raise Broken("trace validation is vacuous: a trace with a corrupted receive event was accepted")
    # the receive queue's wait / poll protocol: every interleaving of arm, poll, wake with the peer's frames, on a real channel
    from vlib import wakefam
    wr, wsum = wakefam.run(ctx, "mpx", check_vacuity=True)
    states += wr.distinct
    trans += wr.generated
    wr2, wsum2 = wakefam.run(ctx, "sendloop")        # the connection's send loop and its write queue
    states += wr2.distinct
    trans += wr2.generated
    wsum["schedules"] += wsum2["schedules"]
    ctx.coverage = {
        "wake_schedules_replayed": wsum["schedules"],
        "states": states, "transitions": trans, "traces_validated_against_impl": runs, "samples": samples,
        "events": events, "configs": cfgs, "invariants": ["PrefixOrder", "DrainBeforeEnd"],
        "explanation": "each run: real server + real client (1-2 connections) over loopback, 1-6 channels, both directions at once, "
                       "1-2 concurrent senders per direction, window 16/17/64/4096/1 MiB, write queue 4 KiB-1 MiB, buffers 16 B-32 KiB, "
                       "lz4 on/off, message sizes 8 B .. 3 windows, payload on opening and closing frames, early-ending receivers; plus runs with lagging receivers (windows 1/16/64 MiB, 1-5 MiB messages or thousands of tiny ones, "
                       "the receiver starts only after the peer has sent everything, backlogs up to 48 MiB per channel and direction); "
                       "every payload byte is checked before the receive event is logged. TLC consumes the events and places the "
                       "internal Commit steps; a trace is accepted only if every event is explained (POSTCONDITION on the high-water "
                       "mark). Calls that do not return within 10 s are violations (bounded-time liveness).",
    }
    ctx.assumptions = ["cross-channel order on the wire is not constrained (not part of the statement)",
                       "messages are at least 8 bytes (header); 1-byte messages are covered by C07's scripted peer"]


def replay(ctx, path):
    from vlib.common import say
    say(open(path).read()[:4000])
