"""C11 server serves only negotiated connections and survives hostile peers: MpxServer.tla peer scripts against a real
server over raw TCP, healthy real client on a second connection (DESIGN 4 C11)."""
from vlib import servefam as sf
from vlib.common import Broken


def run(ctx):
    ctx.level = "model_checking"
    steps = 5 if ctx.quick() else 6
    r, summary, mism, samples = sf.run_scripts(ctx, steps, lz4=True)
    for m in mism:
        if m["sig"] == "harness":
            raise Broken("harness: " + m["detail"])
        if not m["sig"].startswith(sf.HANDLER_SIGS) or "request" in m.get("script", "")[:40] and "noversion" in m.get("script", ""):
            ctx.violation(m["sig"], "%s | script: %s (step %d)" % (m["detail"], m.get("script"), m.get("step", -1)), m)
    # one layer up: hostile request / stream frames on a call of a real rpc server, a well-behaved client next to it
    from vlib import rpcfam
    qr, qsum, nq = rpcfam.run_request(ctx)
    ctx.coverage = {
        "rpc_layer": {"model": "RpcRequest.tla", "sequences_replayed": qsum["scripts"], "max_frames": nq, "healthy_calls": qsum["healthy_calls"],
                      "rule": "a wire-level peer opens rpc calls with a request or anything else and then writes well-formed and malformed stream "
                              "frames; handlers run only for requests, and after every sequence two streaming calls of a well-behaved client on its "
                              "own connection are served as if nothing had happened (the server's call states are pooled)"},
        "states": r.distinct, "transitions": r.generated, "traces_validated_against_impl": summary["scripts"] + summary.get("scripts_lz4", 0) + summary.get("scripts_stall", 0),
        "scripts_with_stalled_reader": summary.get("scripts_stall", 0),
        "scripts_over_lz4": summary.get("scripts_lz4", 0),
        "samples": samples, "peer_steps": summary["steps"],
        "invariants": ["HandlerOnlyIfNegotiated", "HandlerExactlyOnce", "CtxCancelledIffEnded", "DeadMeansNoLive"],
        "exhaustive": True,
        "explanation": "every peer script of the step bound over {right/wrong protocol line; connect request ok / unknown compression / "
                       "no supported version / another message first / garbage; open, open+close batch, close, data, window on two ids; "
                       "unknown code, nested batch, garbage frame, structurally invalid message, a catalogue of values whose table entry ends anywhere from 0 to past the end of the value (small and big messages, lists; sent as a frame and as the connect request), every script also with lz4 negotiated (the frames of the script go through the lz4 stream); truncated frame + EOF, 64 MiB declared "
                       "length + EOF, EOF, second connect request}: after every step the bytes the server wrote, connection open "
                       "(barrier round trip) or closed (EOF observed), handler starts and context cancellations must equal the model; "
                       "after every script a real client on its own connection does an echo round trip; the server process must "
                       "have logged no panic",
    }
    ctx.assumptions = ["oversized frames are declared as 64 MiB, not 4 GiB", "the peer speaks lz4 only after a well-formed acceptance; corrupting the lz4 framing itself is not scripted"]


def replay(ctx, path):
    import json
    from vlib.common import say
    say(json.dumps(json.load(open(path)), indent=1)[:4000])
