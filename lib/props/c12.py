"""C12 writer misuse: total Writer.tla machine, every call everywhere, replayed into an owned writer (DESIGN 4 C12)."""
from vlib import writerfam as wf

LEVEL = "model_checking"


def run(ctx):
    ctx.level = LEVEL
    variants = ["fresh", "dirtybuf", "reset_after_fail"]
    states = trans = programs = ops = 0
    samples = []
    cfgs = [("Writer_misuse4.cfg", "m4"), ("Writer_fn.cfg", "fn")] if ctx.quick() else [("Writer_misuse4.cfg", "m4"), ("Writer_misuse5.cfg", "m5"), ("Writer_fn.cfg", "fn")]
    for cfg, name in cfgs:
        r = wf.gen(ctx, cfg, name, timeout=2400)
        states += r.distinct
        trans += r.generated
        summary, mism = wf.replay(ctx, r.outfile, variants, read=False)
        programs += summary["programs"]
        ops += summary["ops"]
        samples += wf.sample_programs(r.outfile, 2)
        for m in mism:
            ctx.violation("%s" % (m["sig"],), "%s | program: %s | variant %s op %d" % (m["detail"], m.get("prog"), m["variant"], m["op"]), m)
    if not ctx.quick():
        r = wf.gen(ctx, "Writer_misuse_sim.cfg", "msim", timeout=1200, simulate="num=60000", depth=13)
        summary, mism = wf.replay(ctx, r.outfile, variants, read=False)
        programs += summary["programs"]
        ops += summary["ops"]
        for m in mism:
            ctx.violation("%s" % (m["sig"],), "%s | program: %s | variant %s op %d" % (m["detail"], m.get("prog"), m["variant"], m["op"]), m)
    ctx.coverage = {
        "states": states, "transitions": trans, "traces_validated_against_impl": programs,
        "samples": samples, "calls_compared": ops,
        "invariants": ["NoGarbage", "StickyError", "ResetIsFresh"], "exhaustive": True,
        "explanation": "all call sequences of the bound over {root Message/List/Value/Any, Field(tag).scalar/Any/Message/List, "
                       "WriteField through a function of the caller that succeeds or reports an error, HasField, Copy/Merge, End/Build on every live or dead message handle, element scalars/Any/List/Message, "
                       "list End/Build/Len through any list handle, Value.Build, Reset, Free}; after every call the return "
                       "class, Writer.Err() class, HasField/Len results and Build bytes are compared with the machine; a panic "
                       "in any call is a violation",
    }
    ctx.assumptions = ["explicitly owned writers (spec.NewWriter / NewWriterBuffer); pooled writers are C18"]


def replay(ctx, path):
    import json
    from vlib.common import say
    say(json.dumps(json.load(open(path)), indent=1)[:4000])
