"""C19 client connection state: MpxClient.tla exhaustive (callers x callbacks x connect routine x environment) and trace
validation of the states reported under the client mutex by real runs; back-off table (DESIGN 4 C19)."""
import json
import os
import re

from vlib import tlc
from vlib.common import Broken

TCFG = """SPECIFICATION TSpec
CONSTANTS
  Max = %d
  Auto = %s
  TraceFile = "%s"
CONSTRAINT HighWater
INVARIANTS FlagsExclusive ConnectedUsable AtMostMax ClosedIsTerminal
POSTCONDITION Accepted
CHECK_DEADLOCK FALSE
"""


def run(ctx):
    ctx.level = "model_checking"
    states = trans = 0
    for m in (1, 2, 3):
        for a in ("TRUE", "FALSE"):
            r = tlc.run_tlc(ctx.scratch("mc-%d-%s" % (m, a)), "MpxClientMC.tla", "MpxClient_%d_%s.cfg" % (m, a), timeout=600,
                            workers=4, out_name="mc.out", heap="3g")
            tlc.require_ok(r, "MpxClientMC %d %s" % (m, a))
            states += r.distinct
            trans += r.generated
    # back-off table of the specification
    r = tlc.run_tlc(ctx.scratch("backoff"), "MpxClientBackoff.tla", "MpxClientBackoff.cfg", timeout=300, workers=1, out_name="b.out", heap="2g")
    table = None
    for rec in tlc.payload_lines(r.outfile):
        table = rec["table"]
    if not table or len(table) != 199:
        raise Broken("no back-off table from TLC: %s" % r.out[-1000:])
    # real runs
    binp = ctx.go_build("mclient")
    wd = ctx.scratch("traces")
    runs = 12 if ctx.quick() else 120
    p = ctx.run([binp, "-out", wd, "-runs", str(runs), "-seed", str(ctx.seed)], timeout=3000)
    if p.returncode != 0:
        raise Broken("mclient failed: %s" % p.stderr[-2000:])
    summary = None
    for line in p.stdout.splitlines():
        d = json.loads(line)
        if "summary" in d:
            summary = d["summary"]
        elif d["sig"] == "harness":
            raise Broken("harness: " + d["detail"])
        else:
            ctx.violation(d["sig"], "%s | %s" % (d["detail"], d["config"]), d)
    if not summary or summary["events"] == 0:
        raise Broken("mclient recorded nothing")
    if summary.get("stale_listed_phases", 0) == 0 and summary["findings"] == 0:
        raise Broken("mclient never held a closed connection on the client's list")
    impl = summary["backoff_ms_2_200"]
    for i, (a, b) in enumerate(zip(table, impl)):
        if a != b:
            ctx.violation("backoff:attempt%d" % (i + 2), "back-off for attempt %d is %d ms, the specification says %d ms" % (i + 2, b, a),
                          {"attempt": i + 2, "impl_ms": b, "spec_ms": a})
            break
    samples = []
    for m in (1, 2, 3):
        for a in ("true", "false"):
            name = "client_%d_%s.ndjson" % (m, a)
            cfg = "t_%d_%s.cfg" % (m, a)
            twd = os.path.join(wd, "v_%d_%s" % (m, a))
            os.makedirs(twd, exist_ok=True)
            os.replace(os.path.join(wd, name), os.path.join(twd, name))
            r = tlc.run_tlc(twd, "MpxClientTrace.tla", cfg, workers=1, dfs=True, timeout=900, heap="4g",
                            extra_files={cfg: TCFG % (m, a.upper(), name)}, out_name="v.out", deadlock=True)
            text = open(r.outfile, errors="replace").read()
            states += r.distinct
            trans += r.generated
            mm = re.search(r'<<"REJECTED_AT", (\d+), (\d+)>>', text)
            if r.violated:
                ctx.violation("invariant:" + r.violated, "a state reported by the real client violates %s (max=%d auto=%s)" % (r.violated, m, a),
                              {"trace": ctx.save_replay("client_%d_%s.ndjson" % (m, a), open(os.path.join(twd, name)).read())})
            elif mm:
                at = int(mm.group(1))
                lines = open(os.path.join(twd, name)).read().splitlines()
                path = ctx.save_replay("rejected_client_%d_%s.ndjson" % (m, a), "\n".join(lines))
                ctx.violation("trace-rejected:" + json.loads(lines[at - 1]).get("e", "?"),
                              "reported client state %d is not reachable by the corresponding action of MpxClient (max=%d auto=%s): %s; previous: %s"
                              % (at, m, a, lines[at - 1], lines[max(0, at - 4):at - 1]), {"trace": path, "event_index": at})
            elif "No error has been found" not in text:
                raise Broken("client trace validation did not finish: %s" % text[-1500:])
            if len(samples) < 3:
                samples.append({"max": m, "auto": a, "first_events": open(os.path.join(twd, name)).read().splitlines()[:4]})
    ctx.coverage = {
        "states": states, "transitions": trans, "traces_validated_against_impl": summary["runs"], "samples": samples,
        "events": summary["events"], "backoff_attempts_compared": 199,
        "invariants": ["FlagsExclusive", "ConnectedUsable", "AtMostMax", "ClosedIsTerminal", "CloseTerminal", "AttemptSteps", "BackoffOK"],
        "explanation": "MpxClientMC: every interleaving of Close, connection-closed and channels-reached callbacks, the slow path of conn(), "
                       "the connect routine (attempt, dial ok/fail, add, tail, retry) and connection deaths for MaxConns 1..3 in both "
                       "modes. Real runs: 2-4 goroutines calling Channel/Conn, holding channels to reach the channel target, closing "
                       "connections, stopping and restarting the server, Close at a random moment; every state reported under the client "
                       "mutex must be reachable by the corresponding action (trace validation) and satisfy the invariants; after Close "
                       "every call returns a closed status; without Close the client recovers once the server is back; the back-off "
                       "function is compared with the specification for attempts 2..200.",
    }
    ctx.assumptions = ["per-attempt sleeps are not timed; the back-off function and the attempt counter are checked instead",
                       "live connections are those listed by the client whose closed flag is unset"]


def replay(ctx, path):
    from vlib.common import say
    say(open(path).read()[:4000])
