"""C08 deterministic, pinned wire format: operational writer machine == denotational Encode == real bytes (DESIGN 4 C08)."""
import os
from vlib import writerfam as wf
from vlib.common import Broken

LEVEL = "model_checking"
VARIANTS = ["fresh", "dirtybuf", "dirtycap", "reset_after_fail", "reset_after_use", "pooled", "release"]
# contiguous buffers of exact capacities: only with the small-payload programs (the boundary programs write 64 KiB payloads)
CAP_VARIANTS = ["cap:%d" % n for n in range(1, 25)] + ["cap:255", "cap:256", "cap:257", "cap:258"]


def run(ctx):
    ctx.level = LEVEL
    runs = [("Writer_wf3.cfg", "wf3"), ("Writer_boundary_q.cfg", "bq"), ("Writer_boundary2.cfg", "b2"), ("Writer_subcopy.cfg", "sc")]
    if not ctx.quick():
        runs = [("Writer_wf3.cfg", "wf3"), ("Writer_wf4.cfg", "wf4"), ("Writer_boundary.cfg", "bfull"), ("Writer_boundary2.cfg", "b2"), ("Writer_subcopy.cfg", "sc")]
    states = trans = programs = builds = 0
    samples = []
    for cfg, name in runs:
        r = wf.gen(ctx, cfg, name, timeout=2400)
        states += r.distinct
        trans += r.generated
        summary, mism = wf.replay(ctx, r.outfile, VARIANTS + (CAP_VARIANTS if name in ("wf3", "wf4", "sc") else []), read=True)
        programs += summary["programs"]
        builds += summary["builds_compared"]
        samples += wf.sample_programs(r.outfile, 2)
        for m in mism:
            ctx.violation("%s:%s" % (m["kind"], m["sig"]),
                          "%s | program: %s | variant %s" % (m["detail"], m.get("prog"), m["variant"]), m)
    # frozen corpus: records captured at the pinned commit (spec bytes == library bytes at capture time)
    g = wf.golden_path()
    if not os.path.exists(g):
        raise Broken("golden corpus missing: " + g)
    summary, mism = wf.replay(ctx, g, VARIANTS, read=True)
    golden = summary["programs"]
    for m in mism:
        ctx.violation("golden:%s:%s" % (m["kind"], m["sig"]),
                      "golden corpus: %s | program: %s | variant %s" % (m["detail"], m.get("prog"), m["variant"]), m)
    ctx.coverage = {
        "states": states, "transitions": trans, "traces_validated_against_impl": programs + golden,
        "samples": samples, "builds_compared_bytewise": builds, "golden_records": golden,
        "variants": VARIANTS + CAP_VARIANTS, "invariants": ["OpEqDen", "RoundTrip", "BigIffBoundary"], "exhaustive": True,
        "explanation": "bytes of every Build of every generated program compared byte-for-byte with the specification "
                       "(two independent definitions inside the spec: stack machine and Encode function) under six writer "
                       "histories: fresh, dirty reused buffer, Reset after a failed program, Reset after a large program, "
                       "pooled writer after pool pollution, auto-releasing writer, contiguous buffers of every capacity 1..24 and 255..258 (each "
                       "payload and each size/type trailer lands before, on and after a reallocation); the same bytes are then read by the "
                       "library's readers (reverse direction: spec-encoded bytes read by the library)",
    }
    ctx.assumptions = ["the specification was transcribed from the pinned code, it pins that layout (format.md is stale)",
                       "golden corpus frozen at the pinned commit guards against drift of the specification itself"]


def replay(ctx, path):
    import json
    from vlib.common import say
    say(json.dumps(json.load(open(path)), indent=1)[:4000])
