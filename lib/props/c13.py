"""C13 parse/open/probe agree and decoding is local: checked on the implementation's own answers over model-generated inputs (DESIGN 4 C13)."""
from vlib import wirefam as wf


def run(ctx):
    ctx.level = "model_checking"
    level = 1 if ctx.quick() else 2
    states = trans = cases = accepted = 0
    samples = []
    for mode in ["mutant", "short", "bytes2", "value"]:
        r = wf.gen(ctx, mode, level if mode in ("mutant", "short") else 1)
        states += r.distinct
        trans += r.generated
        summary, mism = wf.execute(ctx, r.outfile, timeout=1800 if ctx.quick() else 7200)
        wf.report(ctx, mism, {"C13"})
        cases += sum(summary["cases"].values())
        accepted += summary.get("accepted_by_parser", 0)
        samples += wf.samples(r.outfile, 2, keys=("mode", "how", "x", "spec"))
    if accepted < 100 and not ctx.violations:
        from vlib.common import Broken
        raise Broken("vacuous: the real parser accepted only %d generated inputs" % accepted)
    ctx.coverage = {
        "states": states, "transitions": trans, "traces_validated_against_impl": cases, "samples": samples,
        "accepted_by_real_parser": accepted, "invariants": ["AgreeInv", "LocalInv"],
        "prefixes": [[7], [253], [254], [255], [1, 2, 253], [0, 0, 0, 0, 254], [5, 3], [255] * 9],
        "explanation": "AgreeInv/LocalInv hold for the specification's own three decoders on every generated input (TLC); on the "
                       "implementation, for every input its recursive parser accepts: DecodeTypeSize and OpenValueErr report the same "
                       "type and n, re-parsing the returned value is identical, every nested field/element is readable again, and the "
                       "value's own n bytes decode identically (parser and nine typed decoders) behind eight prefixes including varint "
                       "continuation look-alikes",
        "disagreements_checked": accepted,
    }
    ctx.assumptions = ["agreement is demanded between the library's own entry points, not with the specification's acceptance"]


def replay(ctx, path):
    import json
    from vlib.common import say
    say(json.dumps(json.load(open(path)), indent=1)[:4000])
