SPECIFICATION Spec
CONSTANTS
  Mode = "evolve"
  Level = 2
INVARIANTS RoundTripInv CodecInverse WidenNarrow AgreeInv LocalInv TagIndependence
CONSTRAINT Emit
