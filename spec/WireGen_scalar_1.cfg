SPECIFICATION Spec
CONSTANTS
  Mode = "scalar"
  Level = 1
INVARIANTS RoundTripInv CodecInverse WidenNarrow AgreeInv LocalInv TagIndependence
CONSTRAINT Emit
