SPECIFICATION Spec
CONSTANTS
  Frames <- FramesA
  WithCloser = FALSE
  UserEnds = "free"
INVARIANTS NoPrematureRelease NoLibraryPanic NoUseAfterRelease RefsNonNegative ReleasedOnce EndedClean
VIEW View
