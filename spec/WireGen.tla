------------------------------ MODULE WireGen ------------------------------
(***************************************************************************)
(* Generators over WireFormat: every state is one test case for the        *)
(* implementation, printed as JSON, and every invariant is a theorem about *)
(* the specification's own encoder/decoders evaluated on that case.        *)
(*                                                                         *)
(*   Mode "scalar"  C10  scalar codecs, cross-width reads                  *)
(*   Mode "value"   C01/C08/C13  bounded value trees (incl. structs)       *)
(*   Mode "mutant"  C02/C13  structure-aware corruption of valid encodings *)
(*   Mode "short"   C02/C13  all short byte strings over a class alphabet  *)
(*   Mode "bytes2"  C02/C13  all byte strings of length <= 2               *)
(*   Mode "evolve"  C16  reader tag set vs writer tag set                  *)
(***************************************************************************)
EXTENDS WireFormat, Json

CONSTANTS Mode, Level      \* Level: 1 = quick alphabets, 2 = thorough alphabets

VARIABLES c, step          \* c: the current case record; step: mutation depth

vars == <<c, step>>

\* ------------------------------------------------------------- bit helpers
ByteBits(b) == <<(b \div 128) % 2, (b \div 64) % 2, (b \div 32) % 2, (b \div 16) % 2,
                 (b \div 8) % 2, (b \div 4) % 2, (b \div 2) % 2, b % 2>>
BitsOf(bytes) == FlattenSeq([i \in DOMAIN bytes |-> ByteBits(bytes[i])])
BitsByte(bs, o) == bs[o]*128 + bs[o+1]*64 + bs[o+2]*32 + bs[o+3]*16 + bs[o+4]*8 + bs[o+5]*4 + bs[o+6]*2 + bs[o+7]
BytesOf(bits) == [i \in 1..(Len(bits) \div 8) |-> BitsByte(bits, 8*(i-1)+1)]
RECURSIVE BitsVal(_)
BitsVal(bits) == IF Len(bits) = 0 THEN 0 ELSE 2 * BitsVal(SubSeq(bits, 1, Len(bits)-1)) + bits[Len(bits)]
RECURSIVE NatBits(_, _)
NatBits(n, w) == IF w = 0 THEN <<>> ELSE NatBits(n \div 2, w - 1) \o <<n % 2>>
Zeros(n) == [i \in 1..n |-> 0]
AllZero(bits) == \A i \in DOMAIN bits : bits[i] = 0
AllOne(bits) == \A i \in DOMAIN bits : bits[i] = 1

\* ------------------------------------------------------- IEEE-754 widening
\* float32 bytes -> float64 bytes, exact (every float32 is a float64)
Widen(f32) ==
    LET bits == BitsOf(f32)
        s == bits[1]
        e == BitsVal(SubSeq(bits, 2, 9))
        m == SubSeq(bits, 10, 32)
    IN IF e = 255 THEN BytesOf(<<s>> \o NatBits(2047, 11) \o m \o Zeros(29))
       ELSE IF e = 0 /\ AllZero(m) THEN BytesOf(<<s>> \o Zeros(63))
       ELSE IF e = 0 THEN
            \* subnormal: value = 0.m * 2^-126; normalise on the first set bit
            LET p == CHOOSE i \in 1..23 : m[i] = 1 /\ \A j \in 1..(i-1) : m[j] = 0
                rest == SubSeq(m, p + 1, 23)
            IN BytesOf(<<s>> \o NatBits(1023 - 126 - p, 11) \o rest \o Zeros(52 - Len(rest)))
       ELSE BytesOf(<<s>> \o NatBits(e - 127 + 1023, 11) \o m \o Zeros(29))

IsNaN32(f) == LET b == BitsOf(f) IN BitsVal(SubSeq(b, 2, 9)) = 255 /\ ~AllZero(SubSeq(b, 10, 32))
IsNaN64(f) == LET b == BitsOf(f) IN BitsVal(SubSeq(b, 2, 12)) = 2047 /\ ~AllZero(SubSeq(b, 13, 64))
IsInf64(f) == LET b == BitsOf(f) IN BitsVal(SubSeq(b, 2, 12)) = 2047 /\ AllZero(SubSeq(b, 13, 64))

\* float64 bytes read as float32: "exact" x | "overflow" | "nan" | "any" (in range but needs rounding: unconstrained)
Narrow(f64) ==
    LET bits == BitsOf(f64)
        s == bits[1]
        e == BitsVal(SubSeq(bits, 2, 12))
        m == SubSeq(bits, 13, 64)
        E == e - 1023
    IN IF e = 2047 THEN (IF AllZero(m) THEN [r |-> "exact", v |-> BytesOf(<<s>> \o NatBits(255, 8) \o Zeros(23))] ELSE [r |-> "nan"])
       ELSE IF e = 0 /\ AllZero(m) THEN [r |-> "exact", v |-> BytesOf(<<s>> \o Zeros(31))]
       ELSE IF e = 0 THEN [r |-> "any"]                       \* float64 subnormals underflow float32
       ELSE IF E > 127 THEN [r |-> "overflow"]
       ELSE IF E = 127 /\ AllOne(SubSeq(m, 1, 23)) /\ ~AllZero(SubSeq(m, 24, 52)) THEN [r |-> "overflow"]   \* above MaxFloat32
       ELSE IF E >= -126 THEN
            (IF AllZero(SubSeq(m, 24, 52)) THEN [r |-> "exact", v |-> BytesOf(<<s>> \o NatBits(E + 127, 8) \o SubSeq(m, 1, 23))]
             ELSE [r |-> "any"])
       ELSE IF E >= -149 THEN
            \* float32 subnormal: 1.m * 2^E = 0.(0..01m) * 2^-126, exact iff no set bit is shifted out
            LET sh == -126 - E                                   \* 1..23 : position of the leading 1
                keep == 23 - sh                                  \* mantissa bits that still fit
            IN IF AllZero(SubSeq(m, keep + 1, 52))
               THEN [r |-> "exact", v |-> BytesOf(<<s>> \o Zeros(8) \o Zeros(sh - 1) \o <<1>> \o SubSeq(m, 1, keep))]
               ELSE [r |-> "any"]
       ELSE [r |-> "any"]

\* ------------------------------------------------------ cross-width reads
Fits(neg, mag, k) == InRangeInt(k, neg, mag)
ReadInt(v, want) == IF Fits(v.neg, v.mag, want) THEN [r |-> "exact", neg |-> v.neg, mag |-> v.mag] ELSE [r |-> "overflow"]
ReadUint(v, want) == IF InRangeUint(want, v.mag) THEN [r |-> "exact", mag |-> v.mag] ELSE [r |-> "overflow"]

ScalarCase(v) ==
    LET e == EncodeScalar(v)
        reads ==
          IF v.k \in IntKinds THEN [int16 |-> ReadInt(v, "int16"), int32 |-> ReadInt(v, "int32"), int64 |-> ReadInt(v, "int64")]
          ELSE IF v.k \in UintKinds THEN [uint16 |-> ReadUint(v, "uint16"), uint32 |-> ReadUint(v, "uint32"), uint64 |-> ReadUint(v, "uint64")]
          ELSE IF v.k = "float32" THEN [float32 |-> IF IsNaN32(v.bits) THEN [r |-> "nan"] ELSE [r |-> "exact", v |-> v.bits],
                                        float64 |-> IF IsNaN32(v.bits) THEN [r |-> "nan"] ELSE [r |-> "exact", v |-> Widen(v.bits)]]
          ELSE IF v.k = "float64" THEN [float64 |-> IF IsNaN64(v.bits) THEN [r |-> "nan"] ELSE [r |-> "exact", v |-> v.bits],
                                        float32 |-> Narrow(v.bits)]
          ELSE [none |-> TRUE]
    IN [mode |-> "scalar", v |-> v, enc |-> e, reads |-> reads]

\* --- alphabets
Pow2(n) == [i \in 1..8 |-> IF i = 8 - (n \div 8) THEN CASE n % 8 = 0 -> 1 [] n % 8 = 1 -> 2 [] n % 8 = 2 -> 4 [] n % 8 = 3 -> 8
                                                         [] n % 8 = 4 -> 16 [] n % 8 = 5 -> 32 [] n % 8 = 6 -> 64 [] OTHER -> 128
                           ELSE 0]
Mags64 == IF Mode # "scalar" THEN {} ELSE UNION { {Pow2(n), Dec8(Pow2(n)), Inc8(Pow2(n))} : n \in 0..63 }
          \cup { B8(252), B8(253), B8(65535), B8(65536), <<0,0,0,0,255,255,255,255>>, <<0,0,0,1,0,0,0,0>>,
                 <<255,255,255,255,255,255,255,255>>, Zero8, B8(126), B8(127), B8(32767), B8(32768) }

Int64Cases == { VInt("int64", FALSE, mg) : mg \in {x \in Mags64 : Le8(x, <<127,255,255,255,255,255,255,255>>)} }
              \cup { VInt("int64", TRUE, mg) : mg \in {x \in Mags64 : x # Zero8 /\ Le8(x, <<128,0,0,0,0,0,0,0>>)} }
Int32Cases == { VInt("int32", FALSE, mg) : mg \in {x \in Mags64 : Le8(x, <<0,0,0,0,127,255,255,255>>)} }
              \cup { VInt("int32", TRUE, mg) : mg \in {x \in Mags64 : x # Zero8 /\ Le8(x, <<0,0,0,0,128,0,0,0>>)} }
Int16Boundary == { SmallInt("int16", n) : n \in {-32768, -32767, -16384, -127, -126, -64, -2, -1, 0, 1, 2, 63, 64, 126, 127, 128, 16383, 16384, 32766, 32767} }
Int16All == IF Level = 2 /\ Mode = "scalar" THEN { SmallInt("int16", n) : n \in -32768..32767 } ELSE {}
Uint64Cases == { VUint("uint64", mg) : mg \in Mags64 }
Uint32Cases == { VUint("uint32", mg) : mg \in {x \in Mags64 : Le8(x, <<0,0,0,0,255,255,255,255>>)} }
Uint16Boundary == { SmallUint("uint16", n) : n \in {0, 1, 127, 128, 251, 252, 253, 254, 255, 256, 32767, 32768, 65534, 65535} }
Uint16All == IF Level = 2 /\ Mode = "scalar" THEN { SmallUint("uint16", n) : n \in 0..65535 } ELSE {}

MantPat32 == { Zeros(23), Zeros(22) \o <<1>>, <<1>> \o Zeros(22), [i \in 1..23 |-> 1], [i \in 1..23 |-> i % 2] }
F32Cases(exps) == { VF32(BytesOf(<<s>> \o NatBits(e, 8) \o mm)) : s \in {0, 1}, e \in exps, mm \in MantPat32 }
MantPat64 == { Zeros(52), Zeros(51) \o <<1>>, <<1>> \o Zeros(51), [i \in 1..52 |-> 1],
               [i \in 1..52 |-> IF i <= 23 THEN 1 ELSE 0], [i \in 1..52 |-> IF i <= 24 THEN 1 ELSE 0],
               Zeros(22) \o <<1>> \o Zeros(29), Zeros(20) \o <<1>> \o Zeros(31) }
Exps64 == {0, 1, 2, 873, 874, 875, 880, 896, 897, 898, 1022, 1023, 1024, 1149, 1150, 1151, 2046, 2047}
F64Cases == IF Mode # "scalar" THEN {} ELSE { VF64(BytesOf(<<s>> \o NatBits(e, 11) \o mm)) : s \in {0, 1}, e \in Exps64, mm \in MantPat64 }
            \cup { VF64(Widen(x.bits)) : x \in F32Cases({0, 1, 127, 254, 255}) }

BinCases == { VBin("bin64", [i \in 1..8 |-> (i * 37) % 256]), VBin("bin64", Zero8), VBin("bin64", [i \in 1..8 |-> 255]),
              VBin("bin128", [i \in 1..16 |-> (i * 41) % 256]), VBin("bin128", [i \in 1..16 |-> 0]),
              VBin("bin256", [i \in 1..32 |-> (i * 43) % 256]), VBin("bin256", [i \in 1..32 |-> 255]) }
ByteLens == IF Level = 1 THEN {0, 1, 2, 252, 253, 254} ELSE {0, 1, 2, 251, 252, 253, 254, 255, 256, 65535, 65536, 65537}
BytesCases == { VBytes(Fill(n)) : n \in ByteLens } \cup { VBytes(<<0, 255, 0, 253>>), VBytes(<<60, 0, 50>>) }
StringCases == { VString(Fill(n)) : n \in ByteLens } \cup { VString(<<0, 65, 0>>), VString(<<255, 254, 253>>) }

ScalarValues == IF Mode # "scalar" THEN {} ELSE
    { VBool(TRUE), VBool(FALSE) } \cup { VByte(n) : n \in 0..255 }
    \cup Int64Cases \cup Int32Cases \cup Uint64Cases \cup Uint32Cases
    \cup (IF Level = 1 THEN Int16Boundary \cup Uint16Boundary ELSE Int16All \cup Uint16All)
    \cup F32Cases(IF Level = 1 THEN {0, 1, 2, 126, 127, 128, 253, 254, 255} ELSE 0..255) \cup F64Cases
    \cup BinCases \cup BytesCases \cup StringCases

\* ----------------------------------------------------------- value trees
I(k, n) == SmallInt(k, n)
U(k, n) == SmallUint(k, n)
TreeScalars ==
    { VBool(TRUE), VByte(200), I("int16", -3), I("int32", 127), VInt("int64", TRUE, <<128,0,0,0,0,0,0,0>>),
      U("uint16", 253), VUint("uint64", <<0,0,0,1,0,0,0,0>>), VF32(<<63,128,0,0>>), VF64(<<128,0,0,0,0,0,0,0>>),
      VBin("bin64", <<1,2,3,4,5,6,7,8>>), VBin("bin128", [i \in 1..16 |-> i]), VBytes(<<>>), VBytes(<<1,2,3>>),
      VString(<<>>), VString(<<104,105>>) }
TreeTags == IF Level = 1 THEN {1, 2, 256} ELSE {1, 2, 255, 256, 65535}
T1 == TreeScalars \cup { VList(<<>>), VMsg(<<>>), VStruct(<<>>) }
T1s == IF Level = 1 THEN { VBool(TRUE), I("int32", 127), VString(<<104,105>>), VList(<<>>), VMsg(<<>>) } ELSE T1
T2 == { VList(<<a>>) : a \in T1 } \cup { VMsg(<< <<t, a>> >>) : t \in TreeTags, a \in T1 } \cup { VStruct(<<a>>) : a \in TreeScalars }
T2s == { VList(<<a>>) : a \in T1s } \cup { VMsg(<< <<t, a>> >>) : t \in TreeTags, a \in T1s }
T3 == IF Mode # "value" THEN {} ELSE { VList(<<a, b>>) : a \in T1s, b \in T1s } \cup { VList(<<a>>) : a \in T2s }
      \cup { VMsg(<< <<t, a>>, <<u, b>> >>) : t \in TreeTags, u \in TreeTags, a \in T1s, b \in T1s }
      \cup { VMsg(<< <<t, a>> >>) : t \in TreeTags, a \in T2s }
      \cup { VStruct(<<a, b>>) : a \in TreeScalars, b \in {I("int32", 127), VString(<<104,105>>), VStruct(<<VBool(TRUE)>>)} }
TreeValues == IF Mode # "value" THEN {} ELSE { v \in T1 \cup T2 \cup T3 : v.k # "msg" \/ DistinctTags(v.fields) }

ValueCase(v) == LET e == Encode(v) IN [mode |-> "value", enc |-> e, tree |-> CanonRaw(v), struct |-> IF v.k = "struct" THEN v ELSE VNone]

\* ------------------------------------------------------ corruption (C02/C13)
\* byte classes: every type code, the varint markers and their neighbours, small sizes, a filler
ClassBytes == AllTypeCodes \cup {0, 4, 6, 127, 128, 200, 251, 252, 253, 254, 255}

\* bases to corrupt: small trees plus hand-picked bigger shapes (big tables, nested, strings)
MutBases == IF Mode # "mutant" THEN {} ELSE
    { Encode(v) : v \in { w \in T1 \cup T2 : TRUE } }
    \cup { Encode(v) : v \in { VMsg(<< <<1, VBool(TRUE)>>, <<2, I("int32", 127)>>, <<300, VString(<<104,105>>)>> >>),
                               VMsg(<< <<2, VList(<<VByte(1), VByte(2)>>)>>, <<1, VMsg(<< <<1, VBool(FALSE)>> >>)>> >>),
                               VList(<<VString(<<97>>), VBytes(<<1,2>>), VList(<<VBool(TRUE)>>)>>),
                               VList([i \in 1..3 |-> U("uint16", 253)]),
                               VStruct(<<I("int32", 127), VString(<<104,105>>)>>),
                               VList(<<VStruct(<<VBool(TRUE), VByte(3)>>)>>) } }

BigSizes == { <<255,255,255,253,254>>, <<255,255,255,255,254>>, <<255,255,255,250,254>>, <<127,255,255,255,254>>, <<128,0,0,0,254>>,
              <<0,1,0,0,254>>, <<255,255,253>>, <<0,0,253>>, <<1,0,0,0,0,0,0,0,255>> }
Label(x) == LET r == Parse(x) IN [valid |-> r.ok, n |-> r.n]
MutCase(base, x, how) == [mode |-> "mutant", how |-> how, base |-> base, x |-> x, spec |-> Label(x)]

Replace(x, i, b) == [x EXCEPT ![i] = b]
DropFront(x, k) == SubSeq(x, k + 1, Len(x))
InsByte(x, i, b) == SubSeq(x, 1, i - 1) \o <<b>> \o SubSeq(x, i, Len(x))
DelByte(x, i) == SubSeq(x, 1, i - 1) \o SubSeq(x, i + 1, Len(x))

\* ------------------------------------------------------------ short strings
ShortAlphabet == IF Level = 1 THEN {0, 1, 3, 11, 22, 50, 60, 70, 71, 80, 81, 90, 200, 253, 254, 255} ELSE ClassBytes

\* ----------------------------------------------------------- evolution (C16)
EvTags == {1, 2, 3, 255, 256}
EvVal(t) == CASE t = 1 -> I("int32", 127) [] t = 2 -> VString(<<104,105>>) [] t = 3 -> VList(<<VBool(TRUE)>>)
              [] t = 255 -> VMsg(<< <<1, VByte(9)>> >>) [] OTHER -> VUint("uint64", <<0,0,0,1,0,0,0,0>>)
\* tags no writer uses which every reader asks for as well: they equal a written tag modulo 256 (a one-byte table entry
\* must not match them) or are the largest tag
EvAliasTags == {257, 258, 259, 511, 512, 65535}
\* a message written under schema A = sequence of distinct tags in write order
Perms(S) == { s \in [1..Cardinality(S) -> S] : \A i, j \in DOMAIN s : i # j => s[i] # s[j] }
EvMsgs == IF Mode # "evolve" THEN {} ELSE UNION { Perms(S) : S \in SUBSET EvTags }
EvCaseV(order, R, Val(_)) ==
    LET v == VMsg([i \in DOMAIN order |-> <<order[i], Val(order[i])>>])
        e == Encode(v)
    IN [mode |-> "evolve", enc |-> e, written |-> order, reader |-> SetToSeq(R),
        reads |-> [i \in 1..Cardinality(R \cup EvAliasTags) |->
                     LET t == SetToSeq(R \cup EvAliasTags)[i] IN
                     [tag |-> t, present |-> HasField(e, t),
                      val |-> IF HasField(e, t) THEN LET fb == LookupRaw(e, t) IN Parse(fb).v ELSE VNone]]]
EvCase(order, R) == EvCaseV(order, R, EvVal)
\* a field unknown to the reader that is larger than 64 KiB: offsets need the big table although every tag is small
EvBigVal(t) == IF t = 2 THEN VString(Fill(65600)) ELSE EvVal(t)
EvBigMsgs == IF Mode # "evolve" THEN {} ELSE Perms({1, 2, 255}) \cup Perms({2, 255})
\* a nested message unknown to the reader whose data needs a three-byte size while its table needs one byte (253..65535)
EvNestVal(t) == IF t = 255 THEN VMsg(<< <<1, VByte(9)>>, <<2, VString(Fill(300))>> >>) ELSE EvVal(t)
EvNestMsgs == IF Mode # "evolve" THEN {} ELSE Perms({1, 3, 255}) \cup Perms({255})
EvBigCases == { EvCaseV(o, R, EvBigVal) : o \in EvBigMsgs, R \in {{255}, {1, 255}} }
              \cup { EvCaseV(o, R, EvNestVal) : o \in EvNestMsgs, R \in {{1}, {3}, {1, 3}} }

\* ---------------------------------------------------------------- machine
Init ==
    /\ step = 0
    /\ CASE Mode = "scalar" -> c \in { ScalarCase(v) : v \in ScalarValues }
         [] Mode = "value"  -> c \in { ValueCase(v) : v \in TreeValues }
         [] Mode = "mutant" -> c \in { MutCase(b, b, "base") : b \in MutBases }
         [] Mode = "short"  -> c = MutCase(<<>>, <<>>, "short")
         [] Mode = "bytes2" -> c = MutCase(<<>>, <<>>, "short")
         [] Mode = "evolve" -> c \in { EvCase(o, R) : o \in EvMsgs, R \in (SUBSET EvTags) \ {{}} } \cup EvBigCases

MaxShort == IF Level = 1 THEN 3 ELSE 3
Next ==
    \/ /\ Mode = "mutant" /\ step = 0
       /\ step' = 1
       /\ \/ \E i \in 1..Len(c.x), b \in ClassBytes : b # c.x[i] /\ c' = MutCase(c.base, Replace(c.x, i, b), "replace")
          \/ \E k \in 1..(Len(c.x) - 1) : c' = MutCase(c.base, DropFront(c.x, k), "dropfront")
          \/ \E i \in 1..Len(c.x) : Len(c.x) > 1 /\ c' = MutCase(c.base, DelByte(c.x, i), "delete")
          \/ \E i \in 1..(Len(c.x) + 1), b \in {0, 1, 253, 255} : c' = MutCase(c.base, InsByte(c.x, i, b), "insert")
          \* a size field (one of the bytes before the type byte) replaced by a boundary size in its longest encodings:
          \* sums of sizes that wrap 32 bits, sizes at the int32 limits, 65535/65536
          \/ \E i \in {j \in (Len(c.x) - 3)..(Len(c.x) - 1) : j >= 1}, v \in BigSizes :
                c' = MutCase(c.base, SubSeq(c.x, 1, i - 1) \o v \o SubSeq(c.x, i + 1, Len(c.x)), "bigsize")
    \/ /\ Mode = "mutant" /\ step = 1 /\ Level = 2 /\ c.how = "replace"
       /\ step' = 2
       /\ \E i \in 1..Len(c.x), b \in {0, 1, 253, 254, 255} : b # c.x[i] /\ c' = MutCase(c.base, Replace(c.x, i, b), "replace2")
    \/ /\ Mode = "bytes2" /\ Len(c.x) < 2
       /\ step' = step + 1
       /\ \E b \in 0..255 : c' = MutCase(<<>>, <<b>> \o c.x, "short")
    \/ /\ Mode = "short" /\ Len(c.x) < MaxShort
       /\ step' = step + 1
       /\ \E b \in ShortAlphabet : c' = MutCase(<<>>, c.x \o <<b>>, "short")

Spec == Init /\ [][Next]_vars

\* ------------------------------------------------------------- theorems
\* RoundTrip on every generated value (C01/C08)
RoundTripInv == c.mode = "value" => Parse(c.enc) = [ok |-> TRUE, n |-> Len(c.enc), v |-> c.tree]
\* scalar codecs are exact inverses inside the specification (C10)
CodecInverse == c.mode = "scalar" => LET r == Parse(c.enc) IN r.ok /\ r.n = Len(c.enc) /\ r.v = c.v
\* every float32 survives widening and narrowing (C10)
WidenNarrow == (c.mode = "scalar" /\ c.v.k = "float32" /\ ~IsNaN32(c.v.bits)) =>
                    Narrow(Widen(c.v.bits)) = [r |-> "exact", v |-> c.v.bits]
\* C13 on the specification's own decoders: parse, probe and re-parse agree; decoding is local
PrefixSet == { <<>>, <<7>>, <<253>>, <<254>>, <<255>>, <<1, 2, 253>>, <<0, 0, 0, 0, 254>>, <<5, 3>>, <<255, 255, 255, 255, 255, 255, 255, 255, 255>> }
AgreeInv == c.mode \in {"mutant", "value", "short"} => LET x == IF c.mode = "value" THEN c.enc ELSE c.x IN AgreeOf(x)
LocalInv == c.mode \in {"mutant", "value"} => LET x == IF c.mode = "value" THEN c.enc ELSE c.x IN \A p \in PrefixSet : LocalOf(p, x)
\* C16: what a reader finds under a tag depends only on that tag's value, not on the other fields or the write order
TagIndependence == c.mode = "evolve" =>
    \A i \in DOMAIN c.reads :
        LET r == c.reads[i]
            written == \E j \in DOMAIN c.written : c.written[j] = r.tag
        IN r.present = written /\ (written => r.val = CanonRaw(EvVal(r.tag)))

Emit == PrintT(ToJson(c))
PrefixRecord == [mode |-> "prefixes", prefixes |-> SetToSeq(PrefixSet)]
=============================================================================
