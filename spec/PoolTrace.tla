------------------------------ MODULE PoolTrace ------------------------------
(***************************************************************************)
(* Pool events recorded from the real pools (verif build) are a behaviour  *)
(* of Pool.tla: an acquisition is New or Get of that object and the mask   *)
(* of attributes which are not fresh, read by the hook right after the     *)
(* object was taken, is the object's dirty set (which Pool keeps empty for *)
(* free objects); a release is Put by the holder.  Uses are not logged.    *)
(***************************************************************************)
EXTENDS Naturals, Sequences, FiniteSets, TLC, Json

CONSTANTS TraceFile, NObjs

Trace == ndJsonDeserialize(TraceFile)

VARIABLES state, holder, dirty, l
P == INSTANCE Pool WITH Objs <- 1..NObjs, Procs <- {"p"}, Attrs <- 0..20, Faulty <- FALSE

BitsOf(m) == {i \in 0..20 : (m \div (2 ^ i)) % 2 = 1}

TInit == P!Init /\ l = 1 /\ TLCSet(1, 1)

TGet == /\ l <= Len(Trace) /\ Trace[l].e = "get"
        /\ LET o == Trace[l].o IN
              /\ (P!New("p", o) \/ P!Get("p", o))
              /\ dirty'[o] = BitsOf(Trace[l].m)
        /\ l' = l + 1
TPut == /\ l <= Len(Trace) /\ Trace[l].e = "put"
        /\ P!Put("p", Trace[l].o)
        /\ l' = l + 1

TNext == TGet \/ TPut
TSpec == TInit /\ [][TNext]_<<state, holder, dirty, l>>

HighWater == (IF l > TLCGet(1) THEN TLCSet(1, l) ELSE TRUE) /\ (l = Len(Trace) + 1 => TLCSet("exit", TRUE))
Accepted == IF TLCGet(1) = Len(Trace) + 1 THEN TRUE ELSE PrintT(<<"REJECTED_AT", TLCGet(1), Len(Trace)>>)
FreshWhenFree == P!FreshWhenFree
=============================================================================
