SPECIFICATION Spec
CONSTANTS
  Mode = "bytes2"
  Level = 1
INVARIANTS RoundTripInv CodecInverse WidenNarrow AgreeInv LocalInv TagIndependence
CONSTRAINT Emit
