SPECIFICATION Spec
CONSTANTS
  MaxIn = 1
  MaxOut = 1
  Kinds = {"out"}
  Outcomes = {"ok"}
  EarlyEnd = TRUE
  WithDrop = FALSE
  WithFree = FALSE
PROPERTIES RefinesRpc
