SPECIFICATION Spec
CONSTANTS
  W = 8
  Size = 6
  Buffered = FALSE
INVARIANTS NoLostWakeup
