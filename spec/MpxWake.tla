------------------------------- MODULE MpxWake -------------------------------
(***************************************************************************)
(* The wait / poll protocol of a channel's receive queue (C03, C04, C07,   *)
(* C09: "whenever the receiver keeps consuming ... do both sides wait      *)
(* forever" never happens).                                                *)
(*                                                                         *)
(* The queue (dependency alloc/bytequeue) is a list of blocks.  Write      *)
(* appends to the last block when the message fits, otherwise to a new     *)
(* block, and then puts a token into a one-slot notification channel.      *)
(* ReadWait ("arm") looks ONLY at the first block: when it has unread      *)
(* messages it returns an already closed channel, otherwise it DRAINS a    *)
(* pending token and returns the notification channel.  Read ("poll")      *)
(* takes the next message, advancing over an exhausted first block.        *)
(*                                                                         *)
(* Receive loops: arm; poll; if nothing, wait on the armed channel.        *)
(* With the other order (poll; arm; wait), a message that went to a new    *)
(* block between the poll and the arm is never signalled: the arm drains   *)
(* its token and the first block is empty (ArmFirst = FALSE shows it).     *)
(*                                                                         *)
(* TLC enumerates every interleaving of the consumer's steps with the      *)
(* producer's writes for every message sequence; mwake replays each on a   *)
(* real channel, holding the receiving goroutine at the rq.arm / rq.poll   *)
(* gates and feeding data frames from a raw peer.                          *)
(***************************************************************************)
EXTENDS Naturals, Sequences, TLC, Json

CONSTANTS MaxMsgs,   \* message-kind sequences up to this length; kinds "small" (fits the last block) | "big" (needs a new block)
          ArmFirst,  \* TRUE: the code as fixed; FALSE: poll before arm
          StartWaiting \* TRUE: the consumer is a loop already asleep on an empty queue (the connection's send loop)

MsgSeqs == UNION { [1..k -> {"small", "big"}] : k \in 1..MaxMsgs }

VARIABLES msgs, blocks, token, pc, armed, got, sent, sched
vars == <<msgs, blocks, token, pc, armed, got, sent, sched>>

First == IF ArmFirst THEN "arm" ELSE "poll"
Second == IF ArmFirst THEN "poll" ELSE "arm"

Init ==
    /\ msgs \in MsgSeqs
    /\ blocks = <<0>>            \* one empty block
    /\ token = FALSE
    /\ pc = IF StartWaiting THEN "wait" ELSE First
    /\ armed = IF StartWaiting THEN "chan" ELSE "none"
    /\ got = 0 /\ sent = 0
    /\ sched = <<>>

Put ==
    /\ sent < Len(msgs)
    /\ LET k == msgs[sent + 1] IN
         blocks' = IF k = "small" THEN [blocks EXCEPT ![Len(blocks)] = @ + 1] ELSE Append(blocks, 1)
    /\ token' = TRUE
    /\ sent' = sent + 1
    /\ sched' = Append(sched, <<"P", msgs[sent + 1]>>)
    /\ UNCHANGED <<msgs, pc, armed, got>>

Arm ==
    /\ pc = "arm"
    /\ IF blocks[1] > 0 THEN armed' = "closed" /\ UNCHANGED token
       ELSE armed' = "chan" /\ token' = FALSE
    /\ pc' = IF ArmFirst THEN "poll" ELSE "wait"
    /\ sched' = Append(sched, <<"C", "rq.arm">>)
    /\ UNCHANGED <<msgs, blocks, got, sent>>

\* the unread messages after taking one
Take(bs) == IF bs[1] > 0 THEN [bs EXCEPT ![1] = @ - 1] ELSE [Tail(bs) EXCEPT ![1] = @ - 1]
HasMsg(bs) == bs[1] > 0 \/ Len(bs) > 1

Poll ==
    /\ pc = "poll"
    /\ sched' = Append(sched, <<"C", "rq.poll", IF HasMsg(blocks) THEN "got" ELSE "empty">>)
    /\ IF HasMsg(blocks)
       THEN /\ blocks' = Take(blocks)
            /\ got' = got + 1
            /\ pc' = IF got + 1 = Len(msgs) THEN "done" ELSE First     \* Receive returns; the caller calls it again
            /\ UNCHANGED <<armed>>
       ELSE /\ pc' = IF ArmFirst THEN "wait" ELSE "arm"
            /\ UNCHANGED <<blocks, got, armed>>
    /\ UNCHANGED <<msgs, token, sent>>

\* the select on the armed channel fires
Wake ==
    /\ pc = "wait"
    /\ \/ armed = "closed" /\ UNCHANGED token
       \/ armed = "chan" /\ token /\ token' = FALSE
    /\ pc' = First
    /\ sched' = Append(sched, <<"C", "wake">>)
    /\ UNCHANGED <<msgs, blocks, armed, got, sent>>

Next == Put \/ Arm \/ Poll \/ Wake
Spec == Init /\ [][Next]_vars

\* a consumer asleep for good although a message is queued
LostWakeup == pc = "wait" /\ armed = "chan" /\ ~token /\ sent = Len(msgs) /\ got < sent
NoLostWakeup == ~LostWakeup
InOrder == got <= sent
Finished == pc = "done" /\ sent = Len(msgs)

Emit == Finished => PrintT(ToJson([msgs |-> msgs, sched |-> sched]))
=============================================================================
