----------------------------- MODULE RpcRequest -----------------------------
(***************************************************************************)
(* What an RPC server makes of the frames a client writes on a call's      *)
(* channel, well-formed or not: the mirror image of RpcReply for the       *)
(* serving role (C04: a handler runs exactly once per request; C11: the    *)
(* effect of a hostile peer is confined to its own calls).                 *)
(*                                                                         *)
(* Transcribed from rpc/server.go HandleChannel (the first message must    *)
(* parse and be a request, otherwise the channel is closed without a       *)
(* handler run and without a response) and rpc/server_channel.go           *)
(* ReceiveAsync (a stream message is handed out; the end marker ends the   *)
(* stream; a message of another type fails the stream for good; bytes      *)
(* that do not parse fail this one Receive only - the next one reads on:   *)
(* that is what the code does, and the model says so).                     *)
(*                                                                         *)
(* The client here is not the library's: a wire-level mpx peer writes the  *)
(* frames of the script.  The handler reads the stream until it ends or    *)
(* fails for good and returns the number of messages it got.               *)
(***************************************************************************)
EXTENDS Integers, Sequences, TLC, Json

CONSTANTS MaxFrames,
          StickyParse   \* TRUE: a model in which unparsable bytes fail the stream for good (for comparison: TLC then finds ReadsOn violated)

VARIABLES first, frames
vars == <<first, frames>>

\* first message: a request; bytes that are no message; a stream message; a response; a structurally invalid value
FirstKinds == {"req", "garbage", "msgfirst", "respfirst", "malformed"}
\* afterwards: stream message, end marker, a request again / a response / a message of an undefined type (wrong type:
\* sticky), bytes that do not parse, the peer closes the channel.  (The catalogue of structurally invalid values is not
\* used here: some of its entries parse as a message of type 0, others do not parse, and the two differ in stickiness.)
StreamKinds == {"msg", "end", "reqagain", "resp", "undeftype", "garbage", "close"}
WrongType == {"reqagain", "resp", "undeftype"}
NoParse == {"garbage"}

Init == /\ first \in FirstKinds
        /\ frames \in UNION {[1..n -> StreamKinds] : n \in 0..MaxFrames}
        /\ (first # "req" => frames = <<>>)
Next == UNCHANGED vars
Spec == Init /\ [][Next]_vars

Runs == IF first = "req" THEN 1 ELSE 0

\* the handler's Receive calls: it goes on after data and after a parse failure, stops at end / wrong type / close;
\* after the last frame of the script it waits (the script then ends the stream: an end marker is appended by the harness)
RECURSIVE Recvs(_, _)
Recvs(fr, i) ==
    IF i > Len(fr) THEN <<>>
    ELSE IF fr[i] = "msg" THEN <<"data">> \o Recvs(fr, i + 1)
    ELSE IF fr[i] \in NoParse THEN (IF StickyParse THEN <<"error">> ELSE <<"parse_error">> \o Recvs(fr, i + 1))
    ELSE IF fr[i] \in WrongType THEN <<"error">>
    ELSE <<"end">>                                            \* end marker or close

\* a script that leaves the stream open is completed with an end marker
Terminal == WrongType \cup {"end", "close"}
Eff == IF \E i \in 1..Len(frames) : frames[i] \in Terminal THEN frames ELSE Append(frames, "end")

Closed == \E i \in 1..Len(frames) : frames[i] = "close" /\ \A j \in 1..(i - 1) : frames[j] \notin WrongType \cup {"end"}
Observed == IF Runs = 1 THEN Recvs(Eff, 1) ELSE <<>>
Count == LET o == Observed IN Len(SelectSeq(o, LAMBDA x : x = "data"))
\* the peer gets the handler's response unless it closed the channel itself while the handler was still reading
Answered == Runs = 1 /\ ~Closed

\* ------------------------------------------------------------- properties
HandlerOnlyForRequest == Runs = 1 <=> first = "req"
\* the messages handed to the handler are those sent before the stream ended, in order; bytes that do not parse cost one
\* failed Receive and nothing else
ReadsOn == Runs = 1 =>
    LET stop == {i \in 1..Len(frames) : frames[i] \in WrongType \cup {"end", "close"}}
        upto == IF stop = {} THEN Len(frames) ELSE (CHOOSE i \in stop : \A j \in stop : i <= j) - 1
    IN Count = Len(SelectSeq(SubSeq(frames, 1, upto), LAMBDA x : x = "msg"))

Emit == PrintT(ToJson([first |-> first, frames |-> (IF first = "req" THEN Eff ELSE frames), runs |-> Runs, recvs |-> Observed, count |-> Count, answered |-> Answered]))
=============================================================================
