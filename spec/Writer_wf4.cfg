\* C01/C08 thorough: all legal programs writing <= 4 nodes over a reduced boundary alphabet
SPECIFICATION Spec
CONSTANTS
  Tags <- TagsSmall
  Descs <- ScalarsSmall
  Srcs <- SrcsSmall
  MaxOps = 8
  MaxNodes = 4
  Misuse = FALSE
  Macros <- NoMacros
INVARIANTS NoGarbage OpEqDen RoundTrip BigIffBoundary
PROPERTIES StickyError
CONSTRAINT EmitDone
