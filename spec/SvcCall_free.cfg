SPECIFICATION Spec
CONSTANTS
  MaxIn = 1
  MaxOut = 1
  Kinds = {"in", "out", "inout"}
  Outcomes = {"ok", "app", "panic"}
  EarlyEnd = FALSE
  WithDrop = FALSE
  WithFree = TRUE
INVARIANTS HandlerAfterCall StreamPrefix EndAfterAll CanFinish RpcInvariants
PROPERTIES RefinesRpc
CONSTRAINT EmitFree
