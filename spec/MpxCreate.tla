------------------------------ MODULE MpxCreate ------------------------------
(***************************************************************************)
(* Opening a channel while the connection is being closed (C09: after a    *)
(* transport failure every channel context is cancelled and every call     *)
(* returns; C06 / C20: a connection close reaches every channel).          *)
(*                                                                         *)
(* Creator (Conn.Channel -> createChannel):                                *)
(*   check1  load channelsClosed: set -> "closed"                          *)
(*   set     insert the new channel into the channel map                   *)
(*   check2  load channelsClosed: unset -> return the channel              *)
(*   del     set: remove the channel again (whoever removes it frees it)   *)
(* Closer (conn.close -> closeChannels):                                   *)
(*   flag    channelsClosed := TRUE          (before the sweep)            *)
(*   sweep   for every channel in the map: remove it and free it           *)
(*           (cancels its context, closes its receive queue)               *)
(* The sweep visits the channels that are in the map when it passes; a     *)
(* channel inserted behind the sweep is found by nobody, so the creator    *)
(* must not hand it out: that is what check2 after set guarantees, as long *)
(* as the flag is raised BEFORE the sweep (FlagFirst).  With the flag      *)
(* raised after the sweep TLC finds the orphan.                            *)
(* TLC enumerates every interleaving; mcreate replays each on a real       *)
(* connection with the creator and the closer held at the cr.* / cl.*      *)
(* gates.                                                                  *)
(***************************************************************************)
EXTENDS Naturals, Sequences, FiniteSets, TLC, Json

CONSTANTS Old,        \* channels already open on the connection (the sweep frees them one by one)
          FlagFirst   \* TRUE: the code as it is; FALSE: the flag is raised after the sweep

VARIABLES flag, inMap, freed, cpc, rpc, result, todo, sched
vars == <<flag, inMap, freed, cpc, rpc, result, todo, sched>>

New == "new"

Init ==
    /\ flag = FALSE /\ inMap = Old /\ freed = {}
    /\ cpc = "check1" /\ result = "none"
    /\ rpc = IF FlagFirst THEN "flag" ELSE "snapshot"
    /\ todo = {} /\ sched = <<>>

Log(a, g) == sched' = Append(sched, <<a, g>>)

\* ---- creator
CCheck1 ==
    /\ cpc = "check1" /\ Log("CR", "cr.check1")
    /\ IF flag THEN cpc' = "done" /\ result' = "closed" ELSE cpc' = "set" /\ UNCHANGED result
    /\ UNCHANGED <<flag, inMap, freed, rpc, todo>>
CSet ==
    /\ cpc = "set" /\ Log("CR", "cr.set")
    /\ inMap' = inMap \cup {New} /\ cpc' = "check2"
    /\ UNCHANGED <<flag, freed, rpc, result, todo>>
CCheck2 ==
    /\ cpc = "check2" /\ Log("CR", "cr.check2")
    /\ IF flag THEN cpc' = "del" /\ UNCHANGED result ELSE cpc' = "done" /\ result' = "ok"
    /\ UNCHANGED <<flag, inMap, freed, rpc, todo>>
CDel ==
    /\ cpc = "del" /\ Log("CR", "cr.del")
    /\ inMap' = inMap \ {New}
    /\ freed' = freed \cup {New}           \* the creator frees what nobody else removed; a removed channel was freed by the sweep
    /\ cpc' = "done" /\ result' = "closed"
    /\ UNCHANGED <<flag, rpc, todo>>

\* ---- closer
RFlag ==
    /\ rpc = "flag" /\ Log("CL", "cl.flag")
    /\ flag' = TRUE
    /\ rpc' = IF FlagFirst THEN "snapshot" ELSE "done"
    /\ UNCHANGED <<inMap, freed, cpc, result, todo>>
\* the sweep starts: it will visit what is in the map now (a later insert may or may not be seen: both are explored)
RSnapshot ==
    /\ rpc = "snapshot" /\ Log("CL", "cl.range")
    /\ todo' = inMap /\ rpc' = "sweep"
    /\ UNCHANGED <<flag, inMap, freed, cpc, result>>
RDel(c) ==
    /\ rpc = "sweep" /\ c \in todo /\ Log("CL", "cl.del")
    /\ todo' = todo \ {c}
    /\ IF c \in inMap THEN inMap' = inMap \ {c} /\ freed' = freed \cup {c} ELSE UNCHANGED <<inMap, freed>>
    /\ UNCHANGED <<flag, cpc, rpc, result>>
\* a channel inserted while the sweep is running may still be reached by it
RSee ==
    /\ rpc = "sweep" /\ New \in inMap /\ New \notin todo /\ New \notin freed
    /\ todo' = todo \cup {New}
    /\ UNCHANGED <<flag, inMap, freed, cpc, rpc, result, sched>>
RSweepDone ==
    /\ rpc = "sweep" /\ todo = {} /\ Log("CL", "cl.done")
    /\ rpc' = IF FlagFirst THEN "done" ELSE "flag"
    /\ UNCHANGED <<flag, inMap, freed, cpc, result, todo>>

Next == CCheck1 \/ CSet \/ CCheck2 \/ CDel \/ RFlag \/ RSnapshot \/ (\E c \in Old \cup {New} : RDel(c)) \/ RSee \/ RSweepDone
Spec == Init /\ [][Next]_vars

Finished == cpc = "done" /\ rpc = "done"
\* a channel that was handed out is closed by the connection's close; a channel that was not handed out is not left in the map
NoOrphan == Finished => (result = "ok" => New \in freed) /\ inMap = {}
AllOldFreed == Finished => Old \subseteq freed
Emit == Finished => PrintT(ToJson([sched |-> sched, result |-> result]))
=============================================================================
