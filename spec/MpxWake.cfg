SPECIFICATION Spec
CONSTANTS
  MaxMsgs = 3
  ArmFirst = TRUE
INVARIANTS NoLostWakeup InOrder
CONSTRAINT Emit
