SPECIFICATION Spec
CONSTANTS
  Frames <- FramesA
  WithCloser = TRUE
  UserEnds = "free"


CONSTRAINT Emit
