SPECIFICATION Spec
CONSTANTS
  Mode = "short"
  Level = 1
INVARIANTS RoundTripInv CodecInverse WidenNarrow AgreeInv LocalInv TagIndependence
CONSTRAINT Emit
