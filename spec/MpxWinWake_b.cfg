SPECIFICATION Spec
CONSTANTS
  W = 64
  Size = 20
  Buffered = TRUE
INVARIANTS NoLostWakeup WindowSane
CONSTRAINT Emit
