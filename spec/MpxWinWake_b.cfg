SPECIFICATION Spec
CONSTANTS
  W = 64
  Size = 20
  Buffered = TRUE
INVARIANTS NoLostWakeup OneInside NoStuckQueue WindowSane
CONSTRAINT Emit
