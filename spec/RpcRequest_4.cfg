SPECIFICATION Spec
CONSTANTS
  MaxFrames = 4
  StickyParse = FALSE
INVARIANTS HandlerOnlyForRequest ReadsOn
CONSTRAINT Emit
