SPECIFICATION Spec
CONSTANTS
  Mode = "parse"
  MaxDefs = 2
CONSTRAINT Emit
