SPECIFICATION Spec
CONSTANTS
  MaxFrames = 2
  StickyParse = TRUE
INVARIANTS ReadsOn
