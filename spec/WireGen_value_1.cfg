SPECIFICATION Spec
CONSTANTS
  Mode = "value"
  Level = 1
INVARIANTS RoundTripInv CodecInverse WidenNarrow AgreeInv LocalInv TagIndependence
CONSTRAINT Emit
