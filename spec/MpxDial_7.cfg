SPECIFICATION Spec
CONSTANTS
  MaxSteps = 7
  Lenient = FALSE
INVARIANTS OnlyNegotiated DeadMeansAnswered ShortIsHarmless
CONSTRAINT Emit
