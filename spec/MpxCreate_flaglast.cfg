SPECIFICATION Spec
CONSTANTS
  Old = {"o1", "o2"}
  FlagFirst = FALSE
INVARIANTS NoOrphan AllOldFreed
CONSTRAINT Emit
