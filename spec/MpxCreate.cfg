SPECIFICATION Spec
CONSTANTS
  Old = {"o1", "o2"}
  FlagFirst = TRUE
INVARIANTS NoOrphan AllOldFreed
CONSTRAINT Emit
