--------------------------- MODULE MpxFlowScript ---------------------------
(***************************************************************************)
(* Deterministic scripts for the wire-level binding of MpxFlow (C07).      *)
(*                                                                         *)
(* A scripted peer cannot observe interleavings inside the endpoint, but   *)
(* the two RULES of MpxFlow are functions of what the peer and the         *)
(* application do:                                                         *)
(*   sender script   : Send(n) calls and window frames from the peer;      *)
(*                     after each, the model says "admitted" or "blocked"  *)
(*                     and the value of the send window                    *)
(*   receiver script : data frames from the peer, the application consumes *)
(*                     everything; the model says which window frames      *)
(*                     (deltas, in order) the endpoint emits               *)
(* Both reuse MpxFlow!CanAdmit and the acknowledgement threshold.          *)
(***************************************************************************)
EXTENDS Integers, Sequences, TLC, Json

CONSTANTS W, Sizes, Deltas, MaxSteps, Mode

Half == W \div 2
CanAdmit(w, n) == w >= n \/ w >= Half

VARIABLES win, pending, hist, recvBytes, acks, closed
vars == <<win, pending, hist, recvBytes, acks, closed>>

Init == win = W /\ pending = 0 /\ hist = <<>> /\ recvBytes = 0 /\ acks = <<>> /\ closed = FALSE

Budget == Len(hist) < MaxSteps /\ ~closed

\* ---- sender scripts (the real endpoint is a server-side channel: already open, every Send checks the window)
DoSend(n) ==
    /\ Mode = "sender" /\ Budget /\ pending = 0
    /\ IF CanAdmit(win, n)
       THEN /\ win' = win - n /\ pending' = 0
            /\ hist' = Append(hist, [op |-> "send", n |-> n, out |-> "admit", win |-> win - n])
       ELSE /\ win' = win /\ pending' = n
            /\ hist' = Append(hist, [op |-> "send", n |-> n, out |-> "block", win |-> win])
    /\ UNCHANGED <<recvBytes, acks, closed>>

DoWin(d) ==
    /\ Mode = "sender" /\ Budget
    /\ LET w1 == win + d IN
       IF pending # 0 /\ CanAdmit(w1, pending)
       THEN /\ win' = w1 - pending /\ pending' = 0
            /\ hist' = Append(hist, [op |-> "win", n |-> d, out |-> "admit", win |-> w1 - pending])
       ELSE /\ win' = w1 /\ UNCHANGED pending
            /\ hist' = Append(hist, [op |-> "win", n |-> d, out |-> IF pending # 0 THEN "block" ELSE "none", win |-> w1])
    /\ UNCHANGED <<recvBytes, acks, closed>>

\* SendAndClose is never blocked, whatever the window
DoClose(n) ==
    /\ Mode = "sender" /\ Budget /\ pending = 0
    /\ closed' = TRUE /\ win' = win - n
    /\ hist' = Append(hist, [op |-> "close", n |-> n, out |-> "admit", win |-> win - n])
    /\ UNCHANGED <<pending, recvBytes, acks>>

\* ---- receiver scripts: the peer sends data, the application consumes each message
DoData(n) ==
    /\ Mode = "receiver" /\ Budget
    /\ LET r == recvBytes + n IN
       IF r < Half THEN recvBytes' = r /\ UNCHANGED acks
       ELSE recvBytes' = 0 /\ acks' = Append(acks, r)
    /\ hist' = Append(hist, [op |-> "data", n |-> n, out |-> "none", win |-> 0])
    /\ UNCHANGED <<win, pending, closed>>

Next == \/ \E n \in Sizes : DoSend(n) \/ DoClose(n) \/ DoData(n)
        \/ \E d \in Deltas : DoWin(d)

Spec == Init /\ [][Next]_vars

\* the scripted rules keep the bound of MpxFlow
Max(a, b) == IF a > b THEN a ELSE b
ScriptBound == (Mode = "sender" /\ ~closed) =>
                  \A i \in DOMAIN hist : hist[i].out = "admit" /\ hist[i].op # "close" =>
                        W - hist[i].win <= Max(W, W - Half + (IF hist[i].op = "send" THEN hist[i].n ELSE W + W))

Record == [mode |-> Mode, w |-> W, script |-> hist, acks |-> acks]
Emit == (Len(hist) = MaxSteps \/ closed) => PrintT(ToJson(Record))
=============================================================================
