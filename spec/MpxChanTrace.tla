---------------------------- MODULE MpxChanTrace ----------------------------
(***************************************************************************)
(* TraceLog validation for MpxChan: API-level events recorded from real       *)
(* client/server runs (harness/cmd/mtraffic) are consumed one per step;    *)
(* TLC places the internal Commit steps.  Many runs are concatenated with  *)
(* "reset" events.  Acceptance: the high-water mark of consumed events     *)
(* (TLCSet register 1) equals the trace length (POSTCONDITION).            *)
(*                                                                         *)
(* Event records:  e = "sb" | "se" | "rv" | "re" | "fail" | "reset"        *)
(*                 c channel (small integer), d direction, m message id,   *)
(*                 close BOOLEAN (sb), ok BOOLEAN (se)                     *)
(***************************************************************************)
EXTENDS MpxChan, Json, TLCExt

CONSTANTS TraceFile

TraceLog == ndJsonDeserialize(TraceFile)

VARIABLES l, rk      \* rk[c,d][m]: receive rank hint of a begun message
tvars == <<cvars, l, rk>>

Ev == TraceLog[l]
Key == <<Ev.c, Ev.d>>
IsEvent(e) == l <= Len(TraceLog) /\ Ev.e = e /\ l' = l + 1

TInit == CInit /\ l = 1 /\ TLCSet(1, 1) /\ rk = [k \in Keys |-> <<>>]

TBegin == IsEvent("sb") /\ Begin(Ev.c, Ev.d, Ev.m, Ev.close) /\ rk' = [rk EXCEPT ![Key] = (Ev.m :> Ev.rk) @@ @]
TEnd == IsEvent("se") /\ End(Ev.c, Ev.d, Ev.m, Ev.ok) /\ UNCHANGED rk
TRecv == IsEvent("rv") /\ Recv(Ev.c, Ev.d, Ev.m) /\ UNCHANGED rk
TRecvEnd == IsEvent("re") /\ RecvEnd(Ev.c, Ev.d) /\ UNCHANGED rk
TFail == IsEvent("fail") /\ Fail /\ UNCHANGED rk
TReset == IsEvent("reset") /\ pend' = [k \in Keys |-> {}] /\ pendClose' = [k \in Keys |-> {}] /\ sent' = [k \in Keys |-> <<>>]
          /\ sclosed' = [k \in Keys |-> FALSE] /\ nrecv' = [k \in Keys |-> 0] /\ rended' = [k \in Keys |-> FALSE]
          /\ selfEnd' = [k \in Keys |-> FALSE] /\ failed' = FALSE /\ rk' = [k \in Keys |-> <<>>]

\* Internal commit steps are placed deterministically:
\*   * only when the next event cannot happen without one (as late as possible), and
\*   * in the only order that can still be accepted: messages the receiver will get, in the order it gets them
\*     ("rk" = receive rank, computed from the trace itself and attached to the sb event; 0 = never received in this
\*     run), then messages nobody receives, the closing call last.
\* A wrong rank can only make TLC reject a trace, never accept one: Recv still demands sent[nrecv+1] = m.
NextBlocked ==
    /\ l <= Len(TraceLog)
    /\ CASE Ev.e = "se" -> Ev.ok /\ Ev.m \in pend[Key]
         [] Ev.e = "rv" -> ~(nrecv[Key] < Len(sent[Key]) /\ sent[Key][nrecv[Key] + 1] = Ev.m)
         [] Ev.e = "re" -> ~(selfEnd[Key] \/ failed \/ (sclosed[Key] /\ nrecv[Key] = Len(sent[Key])))
         [] OTHER -> FALSE
Ranked == {m \in pend[Key] : rk[Key][m] > 0}
MinRanked == CHOOSE m \in Ranked : \A x \in Ranked : rk[Key][m] <= rk[Key][x]
\* which pending message has to be committed so that the blocked event can happen (empty set: none can help)
Picks ==
    IF Ranked # {} /\ (Ev.e # "se" \/ rk[Key][Ev.m] = 0 \/ rk[Key][MinRanked] < rk[Key][Ev.m]) THEN {MinRanked}
    ELSE CASE Ev.e = "se" -> {Ev.m}
           [] Ev.e = "re" -> (IF pendClose[Key] = {} THEN {} ELSE {CHOOSE m \in pendClose[Key] : TRUE})
           [] OTHER -> {}
TCommit == /\ NextBlocked /\ Picks # {}
           /\ \E m \in Picks : Commit(Ev.c, Ev.d, m)
           /\ UNCHANGED <<l, rk>>

TNext == TBegin \/ TEnd \/ TRecv \/ TRecvEnd \/ TFail \/ TReset \/ TCommit
TSpec == TInit /\ [][TNext]_tvars

\* high-water mark of consumed events
HighWater == /\ TLCSet(1, IF TLCGet(1) > l THEN TLCGet(1) ELSE l)
             /\ (l = Len(TraceLog) + 1 => TLCSet("exit", TRUE))     \* the whole trace is explained: stop searching
Accepted == \/ TLCGet(1) = Len(TraceLog) + 1
            \/ (PrintT(<<"REJECTED_AT", TLCGet(1), Len(TraceLog)>>) /\ FALSE)
=============================================================================
