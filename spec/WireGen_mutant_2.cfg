SPECIFICATION Spec
CONSTANTS
  Mode = "mutant"
  Level = 2
INVARIANTS RoundTripInv CodecInverse WidenNarrow AgreeInv LocalInv TagIndependence
CONSTRAINT Emit
