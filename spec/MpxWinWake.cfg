SPECIFICATION Spec
CONSTANTS
  W = 8
  Size = 6
  Buffered = TRUE
INVARIANTS NoLostWakeup OneInside NoStuckQueue WindowSane
CONSTRAINT Emit
