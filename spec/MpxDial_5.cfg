SPECIFICATION Spec
CONSTANTS
  MaxSteps = 5
  Lenient = FALSE
INVARIANTS OnlyNegotiated DeadMeansAnswered ShortIsHarmless
CONSTRAINT Emit
