------------------------------ MODULE MpxFlow ------------------------------
(***************************************************************************)
(* Flow control of one mpx channel direction in isolation (C07).           *)
(*                                                                         *)
(* Transcribed from mpx/channel.go (Send, SendAndClose, ReceiveAsync) and  *)
(* mpx/channel_state.go (decrementSendWindow, receiveWindow):              *)
(*                                                                         *)
(*   sender    win  : remaining send window, starts at W, may go negative  *)
(*             wake : one-slot notification (sendWindowWait, capacity 1)   *)
(*   admission Send(n) proceeds iff  win >= n  \/  win >= W \div 2 ;       *)
(*             the opening message and the closing message do not wait     *)
(*   receiver  every consumed message adds its size to recvBytes; when     *)
(*             recvBytes >= W \div 2 a window frame with delta = recvBytes *)
(*             is sent and recvBytes is reset                              *)
(*                                                                         *)
(* One action per critical section of the code; the wire is two FIFOs.     *)
(***************************************************************************)
EXTENDS Integers, Sequences, TLC

CONSTANTS W,          \* negotiated window
          Sizes,      \* message sizes the sender may use
          MaxMsgs,    \* bound on messages per behaviour
          OpenFirst   \* TRUE: the first Send carries the opening frame (client side); FALSE: channel already open

VARIABLES win, wake, pc, cur, nsent, dataWire, recvQ, recvBytes, winWire, lastAdmit, closed, rclosed

vars == <<win, wake, pc, cur, nsent, dataWire, recvQ, recvBytes, winWire, lastAdmit, closed, rclosed>>

Half == W \div 2

\* the admission rule (decrementSendWindow)
CanAdmit(w, n) == w >= n \/ w >= Half

Init ==
    /\ win = W /\ wake = 0 /\ pc = "idle" /\ cur = 0 /\ nsent = 0
    /\ dataWire = <<>> /\ recvQ = <<>> /\ recvBytes = 0 /\ winWire = <<>> /\ lastAdmit = 0 /\ closed = FALSE /\ rclosed = FALSE

\* Send(n) called: takes the send mutex
Begin(n) ==
    /\ pc = "idle" /\ ~closed /\ nsent < MaxMsgs
    /\ cur' = n
    /\ pc' = IF OpenFirst /\ nsent = 0 THEN "first" ELSE "check"
    /\ UNCHANGED <<win, wake, nsent, dataWire, recvQ, recvBytes, winWire, lastAdmit, closed, rclosed>>

\* the opening message debits the window without waiting
First ==
    /\ pc = "first"
    /\ win' = win - cur /\ lastAdmit' = cur /\ pc' = "enq"
    /\ UNCHANGED <<wake, cur, nsent, dataWire, recvQ, recvBytes, winWire, closed, rclosed>>

\* one iteration of the admission loop
Check ==
    /\ pc = "check"
    /\ IF CanAdmit(win, cur)
       THEN win' = win - cur /\ lastAdmit' = cur /\ pc' = "enq"
       ELSE pc' = "wait" /\ UNCHANGED <<win, lastAdmit>>
    /\ UNCHANGED <<wake, cur, nsent, dataWire, recvQ, recvBytes, winWire, closed, rclosed>>

\* blocked sender takes the notification and re-checks
Wake ==
    /\ pc = "wait" /\ wake = 1
    /\ wake' = 0 /\ pc' = "check"
    /\ UNCHANGED <<win, cur, nsent, dataWire, recvQ, recvBytes, winWire, lastAdmit, closed, rclosed>>

\* the frame enters the connection's write queue / wire
Enq ==
    /\ pc = "enq"
    /\ dataWire' = Append(dataWire, <<cur, FALSE>>) /\ nsent' = nsent + 1 /\ pc' = "idle"
    /\ UNCHANGED <<win, wake, cur, recvQ, recvBytes, winWire, lastAdmit, closed, rclosed>>

\* SendAndClose(n): the closing payload is exempt from the window
CloseSend(n) ==
    /\ pc = "idle" /\ ~closed /\ nsent > 0
    /\ closed' = TRUE /\ win' = win - n
    /\ dataWire' = Append(dataWire, <<n, TRUE>>)
    /\ UNCHANGED <<wake, pc, cur, nsent, recvQ, recvBytes, winWire, lastAdmit, rclosed>>

\* receive loop of the peer: a data frame is queued for the application
DeliverData ==
    /\ dataWire # <<>>
    /\ recvQ' = (IF Head(dataWire)[1] > 0 THEN Append(recvQ, Head(dataWire)[1]) ELSE recvQ)
    /\ rclosed' = (rclosed \/ Head(dataWire)[2])       \* the closing frame ends the receiving side
    /\ dataWire' = Tail(dataWire)
    /\ UNCHANGED <<win, wake, pc, cur, nsent, recvBytes, winWire, lastAdmit, closed>>

\* the application consumes one message (ReceiveAsync)
Consume ==
    /\ recvQ # <<>>
    /\ LET r == recvBytes + Head(recvQ) IN
       IF r < Half THEN recvBytes' = r /\ UNCHANGED winWire
       ELSE recvBytes' = 0 /\ winWire' = (IF rclosed THEN winWire ELSE Append(winWire, r))   \* no acknowledgement once ended
    /\ recvQ' = Tail(recvQ)
    /\ UNCHANGED <<win, wake, pc, cur, nsent, dataWire, lastAdmit, closed, rclosed>>

\* receive loop of the sender: window frame credits the window and fills the one-slot notification
DeliverWin ==
    /\ winWire # <<>>
    /\ win' = win + Head(winWire) /\ wake' = 1 /\ winWire' = Tail(winWire)
    /\ UNCHANGED <<pc, cur, nsent, dataWire, recvQ, recvBytes, lastAdmit, closed, rclosed>>

SenderStep == (\E n \in Sizes : Begin(n)) \/ First \/ Check \/ Wake \/ Enq
ReceiverStep == DeliverData \/ Consume \/ DeliverWin
Next == SenderStep \/ ReceiverStep \/ (\E n \in Sizes : CloseSend(n))

Spec == Init /\ [][Next]_vars /\ WF_vars(ReceiverStep) /\ WF_vars(Check \/ Wake \/ Enq \/ First)

\* ------------------------------------------------------------- properties
Max(a, b) == IF a > b THEN a ELSE b
\* outstanding unacknowledged payload never exceeds the window plus one message
Bound == ~closed => (W - win) <= Max(W, W - Half + lastAdmit)
\* what is outstanding is accounted for: in flight, queued, consumed-unacked or in an ack on its way
RECURSIVE Sum(_)
Sum(s) == IF s = <<>> THEN 0 ELSE Head(s) + Sum(Tail(s))
RECURSIVE SumD(_)
SumD(s) == IF s = <<>> THEN 0 ELSE Head(s)[1] + SumD(Tail(s))
Conservation == ~closed => (W - win) = SumD(dataWire) + Sum(recvQ) + recvBytes + Sum(winWire) + (IF pc = "enq" THEN cur ELSE 0)
\* a blocked sender always has something coming
NoStuck == ~(pc = "wait" /\ wake = 0 /\ dataWire = <<>> /\ recvQ = <<>> /\ winWire = <<>>)
\* unconsumed acknowledgements stay below the threshold
AckPending == recvBytes < Max(Half, 1)
\* a blocked Send is eventually admitted when the receiver keeps consuming
Progress == (pc = "wait") ~> (pc = "enq")
=============================================================================
