SPECIFICATION Spec
CONSTANTS
  Unsub = TRUE
INVARIANTS ExactlyOnceIffOk AtMostOnce ClosedBeforeListener
CONSTRAINT Emit
