INIT BInit
NEXT BNext
CONSTANTS
  Max = 1
  Auto = TRUE
