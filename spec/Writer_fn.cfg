\* C12: fields written through a function of the caller (WriteField) that succeeds or reports an error, among every
\* other call on every live or dead handle
SPECIFICATION Spec
CONSTANTS
  Tags <- TagsTiny
  Descs <- ScalarsTiny
  Srcs <- NoMacros
  MaxOps = 4
  MaxNodes = 100
  Misuse = TRUE
  Macros <- MacrosFn
INVARIANTS NoGarbage
PROPERTIES StickyError ResetIsFresh
CONSTRAINT EmitAtBound
