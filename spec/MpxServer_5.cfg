SPECIFICATION Spec
CONSTANTS
  Ids = {1, 2}
  MaxSteps = 5
INVARIANTS HandlerOnlyIfNegotiated HandlerExactlyOnce CtxCancelledIffEnded DeadMeansNoLive
CONSTRAINT Emit
