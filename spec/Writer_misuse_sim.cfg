\* C12: every call enabled in every state on every live or dead handle, programs of exactly MaxOps calls
SPECIFICATION Spec
CONSTANTS
  Tags <- TagsTiny
  Descs <- ScalarsTiny
  Srcs <- SrcsSmall
  MaxOps = 12
  MaxNodes = 100
  Misuse = TRUE
  Macros <- NoMacros
INVARIANTS NoGarbage
PROPERTIES StickyError ResetIsFresh
CONSTRAINT EmitAtBound
