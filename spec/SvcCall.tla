------------------------------ MODULE SvcCall ------------------------------
(***************************************************************************)
(* One RPC call at the granularity of the API operations of both ends, as  *)
(* an executable script (C04, C05).                                        *)
(*                                                                         *)
(* Rpc.tla says which histories are allowed; this module generates         *)
(* histories: every interleaving of the client's and the handler's         *)
(* operations in which no operation has to wait for a later one, so that   *)
(* a controller can execute the script step by step on a real client and   *)
(* a real server, on the rpc layer itself (rpc.Client / rpc.ServerChannel) *)
(* and through the code `spec generate` emits for a service (client stub,  *)
(* handler dispatch, typed channels, subservices).                         *)
(*                                                                         *)
(* Kinds (the method shapes of the language):                              *)
(*   "unary"   request -> response        (blocking call)                  *)
(*   "oneway"  request, no response       (returns once written)           *)
(*   "sub"     request -> subservice -> request -> response (blocking)     *)
(*   "in"      request, client streams in, response                        *)
(*   "out"     request, server streams out, response                       *)
(*   "inout"   both                                                        *)
(* Outcome of the handler: "ok" (a result), "app" (an application-defined  *)
(* status code and message), "panic".                                      *)
(*                                                                         *)
(* The refinement RpcView checks that every script is a history Rpc.tla    *)
(* accepts (one call, id 1).                                               *)
(***************************************************************************)
EXTENDS Integers, Sequences, FiniteSets, TLC, Json

CONSTANTS MaxIn,      \* messages the client may stream
          MaxOut,     \* messages the handler may stream
          Kinds,      \* subset of the kinds above
          Outcomes,   \* subset of {"ok", "app", "panic"}
          EarlyEnd,   \* FALSE; TRUE lets the caller see the end of a stream nobody ended (must break the refinement)
          WithDrop,   \* scripts may lose the connection at any point of the call
          WithFree    \* scripts may free a streaming call from a second goroutine while the first one waits in Response

VARIABLES kind, outcome,
          begun,      \* the client has issued the call
          creturned,  \* a blocking call has returned / Response was taken
          started,    \* the handler was entered (for "sub": the outer method)
          started2,   \* "sub": the subservice method was entered
          hret,       \* "none" | "ok" | "app" | "panic": the handler's outcome once it returned
          hret2,      \* "sub": the inner method's outcome
          c2s, s2c,   \* [sent, got, endSent, endSeen]
          dropped,    \* the connection was lost during the call
          hAtDrop,    \* what the handler had returned when it was lost
          pend,       \* "no" | "waiting" (a goroutine of the caller is inside Response) | "freed" (... and the call was freed
                      \* by another goroutine meanwhile) | "joined" (that Response has returned)
          script

vars == <<kind, outcome, begun, creturned, started, started2, hret, hret2, c2s, s2c, dropped, hAtDrop, pend, script>>

NoStream == [sent |-> 0, got |-> 0, endSent |-> FALSE, endSeen |-> FALSE]
HasIn == kind \in {"in", "inout"}
HasOut == kind \in {"out", "inout"}
Blocking == kind \in {"unary", "sub", "oneway"}   \* the call is one blocking operation of the client: "call" starts it, "ret" is its return
Streaming == kind \in {"in", "out", "inout"}

Init == /\ kind \in Kinds /\ outcome \in Outcomes
        /\ (kind = "oneway" => outcome = "ok")          \* nothing of a oneway handler is visible to the caller
        /\ begun = FALSE /\ creturned = FALSE /\ started = FALSE /\ started2 = FALSE
        /\ hret = "none" /\ hret2 = "none" /\ c2s = NoStream /\ s2c = NoStream /\ dropped = FALSE /\ hAtDrop = "none" /\ pend = "no" /\ script = <<>>

Step(who, op, n, expect) ==
    /\ script' = Append(script, [who |-> who, op |-> op, n |-> n, expect |-> expect])
    /\ UNCHANGED <<kind, outcome, dropped, hAtDrop, pend>>

\* ---------------------------------------------------------------- client
\* the call is issued: a blocking call goes on in its own goroutine, a streaming call returns its channel at once
CCall ==
    /\ ~begun /\ begun' = TRUE
    /\ UNCHANGED <<creturned, started, started2, hret, hret2, c2s, s2c>>
    /\ Step("c", "call", 0, "ok")

CSend ==
    /\ begun /\ ~dropped /\ pend = "no" /\ HasIn /\ ~c2s.endSent /\ hret = "none" /\ ~creturned /\ c2s.sent < MaxIn
    /\ c2s' = [c2s EXCEPT !.sent = @ + 1]
    /\ UNCHANGED <<begun, creturned, started, started2, hret, hret2, s2c>>
    /\ Step("c", "send", c2s.sent + 1, "ok")

CSendEnd ==
    /\ begun /\ ~dropped /\ pend = "no" /\ HasIn /\ ~c2s.endSent /\ hret = "none" /\ ~creturned
    /\ c2s' = [c2s EXCEPT !.endSent = TRUE]
    /\ UNCHANGED <<begun, creturned, started, started2, hret, hret2, s2c>>
    /\ Step("c", "sendend", 0, "ok")

CRecv ==
    /\ begun /\ ~dropped /\ pend = "no" /\ HasOut /\ ~creturned /\ s2c.got < s2c.sent
    /\ s2c' = [s2c EXCEPT !.got = @ + 1]
    /\ UNCHANGED <<begun, creturned, started, started2, hret, hret2, c2s>>
    /\ Step("c", "recv", s2c.got + 1, "msg")

\* the end of the handler's stream: it ended it, or it returned (the response closes the stream)
CRecvEnd ==
    /\ begun /\ ~dropped /\ pend = "no" /\ HasOut /\ ~creturned /\ ~s2c.endSeen /\ s2c.got = s2c.sent /\ (EarlyEnd \/ s2c.endSent \/ hret # "none")
    /\ s2c' = [s2c EXCEPT !.endSeen = TRUE]
    /\ UNCHANGED <<begun, creturned, started, started2, hret, hret2, c2s>>
    /\ Step("c", "recvend", 0, "end")

\* the caller takes the outcome: the blocking call returns / Response of a streaming call (messages of the handler's
\* stream which were not received are skipped).  Only once the handler has returned, so that nothing waits.
\* A oneway call returns once the request is written, whatever the handler does.
\* After the connection was lost the caller gets its outcome at once: a non-OK status, or - when the handler had returned
\* before the loss, so that its response may have arrived - that very outcome ("maybe-...").
CReturn ==
    /\ begun /\ ~creturned /\ pend = "no" /\ (kind = "oneway" \/ hret # "none" \/ dropped)
    /\ creturned' = TRUE
    /\ UNCHANGED <<begun, started, started2, hret, hret2, c2s, s2c>>
    /\ Step("c", IF Blocking THEN "ret" ELSE "response", 0,
            IF dropped THEN (IF hAtDrop \in {"ok", "app"} THEN "maybe-" \o hAtDrop ELSE "fail")
            ELSE IF kind = "oneway" THEN "ok" ELSE hret)

\* the connection is lost (a proxy between the two ends cuts it); streams stop, the handler can still return
Drop ==
    /\ WithDrop /\ begun /\ ~dropped /\ ~creturned /\ kind # "oneway" /\ pend = "no"
    /\ Blocking => started        \* a blocking call runs in its own goroutine: once its handler was entered the connection exists
    /\ dropped' = TRUE /\ hAtDrop' = hret
    /\ script' = Append(script, [who |-> "x", op |-> "drop", n |-> 0, expect |-> "ok"])
    /\ UNCHANGED <<kind, outcome, begun, creturned, started, started2, hret, hret2, c2s, s2c, pend>>

\* A goroutine of the caller waits in Response while the handler has not returned; a second goroutine frees the call;
\* the handler returns; the first goroutine's Response returns (what it returns is not judged: the response, or a
\* status saying that the call was freed).  The call state is pooled: the point is that it is not given back while the
\* first goroutine is still inside, so that the calls of the following scripts find it clean.
PendMove(p2, op, expect) ==
    /\ pend' = p2
    /\ script' = Append(script, [who |-> "c", op |-> op, n |-> 0, expect |-> expect])
    /\ UNCHANGED <<kind, outcome, begun, started, started2, hret, hret2, c2s, s2c, dropped, hAtDrop>>
CAsyncResponse ==
    /\ WithFree /\ Streaming /\ begun /\ ~dropped /\ ~creturned /\ pend = "no" /\ hret = "none"
    /\ UNCHANGED creturned /\ PendMove("waiting", "response-start", "ok")
CFreeEarly ==
    /\ pend = "waiting" /\ hret = "none"
    /\ UNCHANGED creturned /\ PendMove("freed", "free", "ok")
CJoin ==
    /\ pend \in {"waiting", "freed"} /\ hret # "none"
    /\ creturned' = TRUE /\ PendMove("joined", "response-join", IF pend = "freed" THEN "any" ELSE hret)

\* ---------------------------------------------------------------- handler
\* the handler is entered with the request (observed, not commanded)
SStart ==
    /\ begun /\ ~dropped /\ ~started /\ started' = TRUE
    /\ UNCHANGED <<begun, creturned, started2, hret, hret2, c2s, s2c>>
    /\ Step("s", "start", 0, "req")

\* a streaming handler asks for the request message; it is valid until the handler's first Receive (rpc.ServerChannel),
\* so the script asks before receiving anything
SRequest ==
    /\ started /\ ~dropped /\ Streaming /\ hret = "none" /\ ~\E k \in DOMAIN script : script[k].op = "request"
    /\ c2s.got = 0 /\ ~c2s.endSeen
    /\ UNCHANGED <<begun, creturned, started, started2, hret, hret2, c2s, s2c>>
    /\ Step("s", "request", 0, "req")

\* ... or too late: after a Receive the request is gone; the call answers with an error (rpc layer) or with a stale view
\* (generated wrappers), which the script does not judge.  What it is there for: nothing else changes, in this call or in
\* any later one (the handler's channel state is pooled).
SRequestLate ==
    /\ started /\ ~dropped /\ Streaming /\ hret = "none" /\ ~\E k \in DOMAIN script : script[k].op \in {"request", "request-late"}
    /\ (c2s.got > 0 \/ c2s.endSeen)
    /\ UNCHANGED <<begun, creturned, started, started2, hret, hret2, c2s, s2c>>
    /\ Step("s", "request-late", 0, "any")

\* "sub": the outer method hands over to the subservice; its method is entered with the second request and returns
SNext ==
    /\ kind = "sub" /\ started /\ ~started2 /\ hret = "none" /\ started2' = TRUE
    /\ UNCHANGED <<begun, creturned, started, hret, hret2, c2s, s2c>>
    /\ Step("s", "next", 0, "req2")
SReturn2 ==
    /\ kind = "sub" /\ started2 /\ hret2 = "none" /\ hret2' = outcome
    /\ UNCHANGED <<begun, creturned, started, started2, hret, c2s, s2c>>
    /\ Step("s", "return2", 0, outcome)

SRecv ==
    /\ started /\ ~dropped /\ pend # "freed" /\ HasIn /\ hret = "none" /\ c2s.got < c2s.sent
    /\ c2s' = [c2s EXCEPT !.got = @ + 1]
    /\ UNCHANGED <<begun, creturned, started, started2, hret, hret2, s2c>>
    /\ Step("s", "recv", c2s.got + 1, "msg")

SRecvEnd ==
    /\ started /\ ~dropped /\ pend # "freed" /\ HasIn /\ hret = "none" /\ ~c2s.endSeen /\ c2s.endSent /\ c2s.got = c2s.sent
    /\ c2s' = [c2s EXCEPT !.endSeen = TRUE]
    /\ UNCHANGED <<begun, creturned, started, started2, hret, hret2, s2c>>
    /\ Step("s", "recvend", 0, "end")

SSend ==
    /\ started /\ ~dropped /\ pend # "freed" /\ HasOut /\ hret = "none" /\ ~s2c.endSent /\ s2c.sent < MaxOut
    /\ s2c' = [s2c EXCEPT !.sent = @ + 1]
    /\ UNCHANGED <<begun, creturned, started, started2, hret, hret2, c2s>>
    /\ Step("s", "send", s2c.sent + 1, "ok")

SSendEnd ==
    /\ started /\ ~dropped /\ pend # "freed" /\ HasOut /\ hret = "none" /\ ~s2c.endSent
    /\ s2c' = [s2c EXCEPT !.endSent = TRUE]
    /\ UNCHANGED <<begun, creturned, started, started2, hret, hret2, c2s>>
    /\ Step("s", "sendend", 0, "ok")

\* the handler returns (or panics); the outer method of "sub" returns what the subservice's method produced
SReturn ==
    /\ started /\ hret = "none"
    /\ kind = "sub" => hret2 # "none"
    /\ hret' = (IF kind = "sub" THEN hret2 ELSE outcome)
    /\ UNCHANGED <<begun, creturned, started, started2, hret2, c2s, s2c>>
    /\ Step("s", "return", 0, IF kind = "sub" THEN hret2 ELSE outcome)

Next == CCall \/ CSend \/ CSendEnd \/ CRecv \/ CRecvEnd \/ CReturn \/ Drop \/ CAsyncResponse \/ CFreeEarly \/ CJoin
        \/ SStart \/ SRequest \/ SRequestLate \/ SNext \/ SReturn2 \/ SRecv \/ SRecvEnd \/ SSend \/ SSendEnd \/ SReturn

Spec == Init /\ [][Next]_vars

Done == creturned /\ (hret # "none" \/ (dropped /\ ~started))

\* ---------------------------------------------------------------- properties
\* the handler runs at most once and only for an issued call; the caller's outcome is the handler's
HandlerAfterCall == started => begun
OutcomeIsHandlers == (creturned /\ kind # "oneway" /\ ~dropped) => hret # "none"
StreamPrefix == c2s.got <= c2s.sent /\ s2c.got <= s2c.sent
EndAfterAll == (c2s.endSeen => c2s.got = c2s.sent) /\ (s2c.endSeen => s2c.got = s2c.sent)
\* every script can be completed (no interleaving paints the controller into a corner)
CanFinish == Done \/ ENABLED Next

\* ---------------------------------------------------------------- refinement: every script is a history of Rpc.tla
RKind == IF ~begun THEN "none" ELSE IF kind = "oneway" THEN "oneway" ELSE IF Streaming THEN "stream" ELSE "unary"
ROut(o) == CASE o = "none" -> [code |-> "none", msg |-> "", res |-> 0]
             [] o = "ok" -> [code |-> "ok", msg |-> "", res |-> 7]
             [] o = "app" -> [code |-> "teapot", msg |-> "short and stout", res |-> 0]
             [] o = "panic" -> [code |-> "panic", msg |-> "", res |-> 0]
\* what the caller holds: the handler's result or status; a panic surfaces as some non-OK status; a oneway call sees OK
RCend == IF ~creturned THEN ROut("none")
         ELSE IF kind = "oneway" THEN [code |-> "ok", msg |-> "", res |-> 0]
         ELSE IF dropped THEN [code |-> "error", msg |-> "", res |-> 0]
         ELSE IF hret = "panic" THEN [code |-> "error", msg |-> "", res |-> 0] ELSE ROut(hret)
RStream(st) == [sent |-> [k \in 1..st.sent |-> k], got |-> st.got, endSent |-> st.endSent, endSeen |-> st.endSeen]
R == INSTANCE Rpc WITH Calls <- {1}, kind <- [i \in {1} |-> RKind], runs <- [i \in {1} |-> IF started THEN 1 ELSE 0],
                       hret <- [i \in {1} |-> ROut(hret)], cend <- [i \in {1} |-> RCend],
                       c2s <- [i \in {1} |-> RStream(c2s)], s2c <- [i \in {1} |-> RStream(s2c)], failed <- dropped
ROuts == {ROut(o) : o \in {"ok", "app", "panic"}} \cup {[code |-> "error", msg |-> "", res |-> 0], [code |-> "ok", msg |-> "", res |-> 0]}
RNext == \/ \E k \in {"unary", "oneway", "stream"} : R!CallBegin(1, k)
         \/ R!HandlerStart(1) \/ R!Fail
         \/ \E o \in ROuts : R!HandlerReturn(1, o) \/ R!CallEnd(1, o)
         \/ \E d \in {"c2s", "s2c"} : \/ \E n \in 1..(MaxIn + MaxOut) : R!Send(d, 1, n) \/ R!Recv(d, 1, n)
                                       \/ R!SendEnd(d, 1)
                                       \/ \E sd \in BOOLEAN : sd = (IF d = "s2c" THEN hret # "none" ELSE creturned) /\ R!RecvEnd(d, 1, sd)
RefinesRpc == [][RNext]_<<RKind, started, hret, RCend, c2s, s2c, dropped>>      \* (pend is not part of the view)
RpcInvariants == R!HandlerAtMostOnce /\ R!OkOnlyIfServerSentOk /\ R!StreamPrefix

\* a script is emitted when it is complete; incomplete prefixes are not executed on their own
Emit == Done => PrintT(ToJson([kind |-> kind, outcome |-> outcome, script |-> script]))
\* only the scripts in which the connection is lost (the others come from the configurations without WithDrop)
EmitFree == (Done /\ pend = "joined") => PrintT(ToJson([kind |-> kind, outcome |-> outcome, script |-> script]))
EmitDrop == (Done /\ dropped) => PrintT(ToJson([kind |-> kind, outcome |-> outcome, script |-> script]))
=============================================================================
