SPECIFICATION Spec
CONSTANTS
  Mode = "bytes2"
  Level = 2
INVARIANTS RoundTripInv CodecInverse WidenNarrow AgreeInv LocalInv TagIndependence
CONSTRAINT Emit
