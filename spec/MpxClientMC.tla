---------------------------- MODULE MpxClientMC ----------------------------
(* Exhaustive exploration of MpxClient: callers, callbacks, the connect routine and the environment in every order. *)
EXTENDS MpxClient

VARIABLES rt,        \* the registered connect routine: "idle" | "started" | "dialing" | "added" | "failed"
          pendClosed \* connections whose closed callback has not run yet
vars == <<cvars, rt, pendClosed>>

Init == CInit /\ rt = (IF Auto THEN "started" ELSE "idle") /\ pendClosed = 0

Bound == attempt <= 3 /\ listed <= 4 /\ pendClosed <= 4 /\ orphans <= 4

\* a routine starts exactly when connect() finds none registered
Spawn == rt' = IF ~connecting /\ connecting' THEN "started" ELSE rt

Next ==
    \/ Close /\ pendClosed' = pendClosed + listed /\ rt' = "idle"              \* Close stops the routine and closes every listed connection
    \/ \E w \in BOOLEAN : pendClosed > 0 /\ ConnClosed(w) /\ pendClosed' = pendClosed - 1 /\ Spawn
    \/ listed > 0 /\ Reached /\ Spawn /\ UNCHANGED pendClosed
    \/ Slow /\ Spawn /\ UNCHANGED pendClosed
    \/ rt = "started" /\ Attempt /\ rt' = "dialing" /\ UNCHANGED pendClosed
    \/ rt = "dialing" /\ rt' = "added" /\ \E a \in BOOLEAN : Add(a) /\ pendClosed' = pendClosed + (IF a \/ closed THEN 0 ELSE 1)
    \/ rt = "dialing" /\ rt' = "failed" /\ UNCHANGED <<cvars, pendClosed>>
    \/ rt = "added" /\ Tail(FALSE) /\ rt' = "idle" /\ UNCHANGED pendClosed
    \/ rt = "failed" /\ (\E again \in BOOLEAN : (again <=> (Auto /\ ~closed)) /\ Tail(again) /\ rt' = (IF again THEN "started" ELSE "idle"))
       /\ UNCHANGED pendClosed
    \/ Die /\ pendClosed' = pendClosed + 1 /\ UNCHANGED rt

Spec == Init /\ [][Next]_vars
=============================================================================
