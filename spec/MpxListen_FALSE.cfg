SPECIFICATION Spec
CONSTANTS
  Unsub = FALSE
INVARIANTS ExactlyOnceIffOk AtMostOnce ClosedBeforeListener
CONSTRAINT Emit
