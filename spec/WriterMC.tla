---------------------------- MODULE WriterMC ----------------------------
(* Model-checking instance of Writer: alphabets, emission of programs as JSON. *)
EXTENDS Writer, Json

I(k, n) == SmallInt(k, n)
U(k, n) == SmallUint(k, n)

\* boundary alphabet of scalars (descriptors; see Writer!Val)
ScalarsFull == {
    [k |-> "bool", b |-> TRUE], [k |-> "bool", b |-> FALSE],
    [k |-> "byte", n |-> 255],
    I("int16", -32768), I("int16", 126), I("int32", -1), I("int32", 127), I("int32", 32767), I("int32", 32768),
    VInt("int32", TRUE, <<0,0,0,0,128,0,0,0>>),                       \* MinInt32
    VInt("int64", FALSE, <<0,0,0,0,128,0,0,0>>),                      \* 2^31 -> zig-zag 2^32: 9-byte class
    VInt("int64", TRUE, <<128,0,0,0,0,0,0,0>>),                       \* MinInt64
    VInt("int64", FALSE, <<127,255,255,255,255,255,255,255>>),        \* MaxInt64
    U("uint16", 252), U("uint16", 253), U("uint32", 65535), U("uint32", 65536),
    VUint("uint64", <<0,0,0,0,255,255,255,255>>), VUint("uint64", <<0,0,0,1,0,0,0,0>>),
    VUint("uint64", <<255,255,255,255,255,255,255,255>>),
    VF32(<<63,128,0,0>>), VF32(<<255,128,0,0>>),                      \* 1.0, -Inf
    VF64(<<128,0,0,0,0,0,0,0>>), VF64(<<127,248,0,0,0,0,0,1>>),       \* -0, NaN
    VBin("bin64", <<1,2,3,4,5,6,7,8>>),
    VBin("bin128", <<1,2,3,4,5,6,7,8,9,10,11,12,13,14,15,16>>),
    VBin("bin256", [i \in 1..32 |-> 255 - i]),
    [k |-> "bytes", fill |-> 0], [k |-> "bytes", fill |-> 3],
    [k |-> "string", fill |-> 0], [k |-> "string", fill |-> 2] }

ScalarsSmall == {
    [k |-> "bool", b |-> TRUE], I("int32", -1), I("int32", 127),
    VInt("int64", TRUE, <<128,0,0,0,0,0,0,0>>), U("uint16", 253),
    VF64(<<128,0,0,0,0,0,0,0>>), [k |-> "string", fill |-> 2], [k |-> "bytes", fill |-> 0] }

ScalarsTiny == { [k |-> "bool", b |-> TRUE], I("int32", 127), [k |-> "string", fill |-> 2] }

\* raw sources for Any / Copy / Merge: previously built values
SrcMsgA == VMsg(<< <<1, I("int32", 5)>>, <<300, VString(Fill(2))>> >>)
SrcMsgB == VMsg(<< <<2, VBool(TRUE)>>, <<1, VList(<<U("uint16", 253)>>)>> >>)
SrcMsgEmpty == VMsg(<<>>)
SrcList == VList(<<VByte(9), VMsg(<< <<7, VBool(FALSE)>> >>)>>)
SrcScalar == I("int64", -300)
SrcsFull == {SrcMsgA, SrcMsgB, SrcMsgEmpty, SrcList, SrcScalar}
SrcsSmall == {SrcMsgA, SrcScalar}

TagsFull == {1, 2, 255, 256, 65535}
TagsSmall == {1, 2, 256}
TagsTiny == {1, 256}

\* boundary payloads: a bytes field of n >= 253 bytes occupies n + 4 bytes
PayloadDescs == { [k |-> "bytes", fill |-> n] : n \in {252, 253, 65530, 65531, 65532, 65535, 65536} }
                 \cup { [k |-> "string", fill |-> n] : n \in {252, 253, 65530, 65531, 65536} }
                 \cup { [k |-> "bool", b |-> TRUE] }

MacrosBoundary ==
    { [op |-> "elem_repeat", val |-> [k |-> "bool", b |-> TRUE], n |-> n] : n \in {47, 48, 49, 255, 256} }
    \cup { [op |-> "elem_repeat", val |-> [k |-> "bytes", fill |-> 253], n |-> n] : n \in {254, 255, 256} }
    \cup { [op |-> "field_repeat", val |-> I("int32", 127), tag |-> t, n |-> n] : t \in {255, 300}, n \in {47, 48, 49, 50} }
    \cup { [op |-> "nest", val |-> I("int32", -1), n |-> n] : n \in {6, 7, 13, 14, 15, 16} }

NoMacros == {}
\* fields written through a function of the caller, which succeeds or reports an error
MacrosFn == { [op |-> "field_fn", tag |-> t, val |-> I("int32", 127), fails |-> f] : t \in {1, 2}, f \in BOOLEAN }
\* copy / merge into a nested message that already has one of the source's tags (1 or 300) or none of them (2)
MacrosSubCopy == { [op |-> "sub_copy", tag |-> tg, tag2 |-> t2, val |-> I("int32", 127), src |-> s] :
                      tg \in {2, 255, 256}, t2 \in {1, 2, 300}, s \in {SrcMsgA, SrcMsgB} }
TagsSubCopy == {1, 3}
ScalarsOne == { [k |-> "bool", b |-> TRUE] }
SrcsOne == {SrcMsgA}
TagsOrder == {1, 2}
PayloadTwo == { [k |-> "bytes", fill |-> 65600], [k |-> "int32", neg |-> FALSE, mag |-> <<0,0,0,0,0,0,0,7>>] }

\* quick-tier subsets
PayloadDescsQ == { [k |-> "bytes", fill |-> n] : n \in {252, 253, 65531, 65532} }
                 \cup { [k |-> "string", fill |-> n] : n \in {252, 253} } \cup { [k |-> "bool", b |-> TRUE] }
MacrosBoundaryQ ==
    { [op |-> "elem_repeat", val |-> [k |-> "bool", b |-> TRUE], n |-> n] : n \in {48, 49, 255, 256} }
    \cup { [op |-> "elem_repeat", val |-> [k |-> "bytes", fill |-> 253], n |-> n] : n \in {255, 256} }
    \cup { [op |-> "field_repeat", val |-> I("int32", 127), tag |-> t, n |-> n] : t \in {255, 300}, n \in {48, 49} }
    \cup { [op |-> "nest", val |-> I("int32", -1), n |-> n] : n \in {14, 15} }

\* -------- emission: one JSON line per finished program
RootKind == IF Len(hist) = 0 THEN "none" ELSE hist[1].op
TreeOut == IF built # <<>> /\ TreeDistinct(rootTree) THEN CanonT(rootTree) ELSE VNone
Record == [prog |-> hist, built |-> built, tree |-> TreeOut, hastree |-> (built # <<>> /\ TreeDistinct(rootTree))]

EmitDone == done => PrintT(ToJson(Record))
EmitAtBound == (Len(hist) = MaxOps) => PrintT(ToJson(Record))
=============================================================================
