SPECIFICATION Spec
CONSTANTS
  MaxMsgs = 3
  ArmFirst = TRUE
  StartWaiting = TRUE
INVARIANTS NoLostWakeup InOrder
CONSTRAINT Emit
