----------------------------- MODULE RpcTrace -----------------------------
(* Validates call histories recorded at the public API of a real rpc client and server (harness/cmd/mrpc). *)
EXTENDS Rpc, Json, TLCExt

CONSTANTS TraceFile
TraceLog == ndJsonDeserialize(TraceFile)

VARIABLE l
tvars == <<rvars, l>>
Ev == TraceLog[l]
IsEvent(e) == l <= Len(TraceLog) /\ Ev.e = e /\ l' = l + 1
Out == [code |-> Ev.code, msg |-> Ev.msg, res |-> Ev.res]

TInit == RInit /\ l = 1 /\ TLCSet(1, 1)
TCallBegin == IsEvent("cb") /\ CallBegin(Ev.i, Ev.kind)
THandlerStart == IsEvent("hs") /\ HandlerStart(Ev.i)
THandlerReturn == IsEvent("hr") /\ HandlerReturn(Ev.i, IF Ev.panic THEN PanicOut ELSE Out)
TCallEnd == IsEvent("ce") /\ CallEnd(Ev.i, Out)
TSend == IsEvent("snd") /\ Send(Ev.d, Ev.i, Ev.n)
TSendEnd == IsEvent("snde") /\ SendEnd(Ev.d, Ev.i)
TRecv == IsEvent("rcv") /\ Recv(Ev.d, Ev.i, Ev.n)
\* senderDone: for s2c the handler has returned (the response closes the stream); for c2s the client finished the call
TRecvEnd == IsEvent("rcve") /\ RecvEnd(Ev.d, Ev.i, IF Ev.d = "s2c" THEN hret[Ev.i] # NoOut ELSE cend[Ev.i] # NoOut)
TFail == IsEvent("fail") /\ Fail
\* end of a run: every issued call was handled exactly once (without faults), then everything starts over
TReset == IsEvent("reset") /\ AllHandled /\ kind' = [i \in Calls |-> "none"] /\ runs' = [i \in Calls |-> 0]
          /\ hret' = [i \in Calls |-> NoOut] /\ cend' = [i \in Calls |-> NoOut] /\ c2s' = [i \in Calls |-> NoStream]
          /\ s2c' = [i \in Calls |-> NoStream] /\ failed' = FALSE

TNext == TCallBegin \/ THandlerStart \/ THandlerReturn \/ TCallEnd \/ TSend \/ TSendEnd \/ TRecv \/ TRecvEnd \/ TFail \/ TReset
TSpec == TInit /\ [][TNext]_tvars

HighWater == /\ TLCSet(1, IF TLCGet(1) > l THEN TLCGet(1) ELSE l)
             /\ (l = Len(TraceLog) + 1 => TLCSet("exit", TRUE))
Accepted == \/ TLCGet(1) = Len(TraceLog) + 1
            \/ (PrintT(<<"REJECTED_AT", TLCGet(1), Len(TraceLog)>>) /\ FALSE)
=============================================================================
