\* C01/C08: offsets beyond 65535 inside multi-field / multi-element containers, in every write order
\* (the big table form is needed as soon as ANY offset exceeds 65535, not only the last one written)
SPECIFICATION Spec
CONSTANTS
  Tags <- TagsOrder
  Descs <- PayloadTwo
  Srcs <- NoMacros
  MaxOps = 6
  MaxNodes = 3
  Misuse = FALSE
  Macros <- NoMacros
INVARIANTS NoGarbage OpEqDen RoundTrip BigIffBoundary
CONSTRAINT EmitDone
