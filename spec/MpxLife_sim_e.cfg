SPECIFICATION Spec
CONSTANTS
  Frames <- FramesA
  WithCloser = TRUE
  UserEnds = "sendclose"


CONSTRAINT Emit
