----------------------------- MODULE SchemaLang -----------------------------
(***************************************************************************)
(* The schema language of basecomplextech/spec: abstract syntax, the       *)
(* concrete-syntax relation (grammar in generative direction,              *)
(* internal/lang/parser/grammar.y), and the static rules of the compiler   *)
(* (internal/lang/model).                                                  *)
(*                                                                         *)
(*   Mode "parse"   C15: files are built from pools of definitions, every  *)
(*                  state is one file with its token sequence; the real    *)
(*                  parser must return exactly the tree                    *)
(*   Mode "compile" C14/C05: well-formed packages (verdict accept) and one *)
(*                  rule violation applied at one site (verdict reject)    *)
(***************************************************************************)
EXTENDS Integers, Sequences, FiniteSets, TLC, Json

CONSTANTS Mode, MaxDefs

\* --------------------------------------------------------------- types
B(n) == [k |-> "base", name |-> n]
TAny == [k |-> "any"]
TMsg == [k |-> "message"]
Ref(n) == [k |-> "ref", name |-> n]
Imp(p, n) == [k |-> "imp", pkg |-> p, name |-> n]
L(t) == [k |-> "list", elem |-> t]

TypeTokens(t) ==
    CASE t.k = "base" -> <<t.name>>
      [] t.k = "any" -> <<"any">>
      [] t.k = "message" -> <<"message">>
      [] t.k = "ref" -> <<t.name>>
      [] t.k = "imp" -> <<t.pkg, ".", t.name>>
      [] t.k = "list" ->
            <<"[", "]">> \o (CASE t.elem.k = "base" -> <<t.elem.name>> [] t.elem.k = "any" -> <<"any">>
                               [] t.elem.k = "message" -> <<"message">> [] t.elem.k = "ref" -> <<t.elem.name>>
                               [] OTHER -> <<t.elem.pkg, ".", t.elem.name>>)

\* --------------------------------------------------------------- members
F(n, t, lit) == [name |-> n, type |-> t, lit |-> lit]           \* message / method field: name type tag-literal
EV(n, lit) == [name |-> n, lit |-> lit]                         \* enum value
SF(n, t) == [name |-> n, type |-> t]                            \* struct field

RECURSIVE Join(_, _)
Join(seqs, sep) == IF Len(seqs) = 0 THEN <<>> ELSE IF Len(seqs) = 1 THEN seqs[1]
                   ELSE seqs[1] \o sep \o Join(Tail(seqs), sep)
RECURSIVE Cat(_)
Cat(seqs) == IF Len(seqs) = 0 THEN <<>> ELSE seqs[1] \o Cat(Tail(seqs))

FieldTokens(f) == <<f.name>> \o TypeTokens(f.type) \o <<f.lit>>
\* method argument / result lists: comma separated, optional trailing comma
FieldListTokens(fs, trailing) ==
    Join([i \in DOMAIN fs |-> FieldTokens(fs[i])], <<",">>) \o (IF trailing /\ Len(fs) > 0 THEN <<",">> ELSE <<>>)

\* method input / output: [k |-> "none"] | [k |-> "type", type] | [k |-> "fields", fields, trailing]
NoIO == [k |-> "none"]
IOType(t) == [k |-> "type", type |-> t]
IOFields(fs, tr) == [k |-> "fields", fields |-> fs, trailing |-> tr]
\* channel: [k |-> "none"] | "in" | "out" | "inout"
NoChan == [k |-> "none"]
ChIn(t) == [k |-> "in", in |-> t]
ChOut(t) == [k |-> "out", out |-> t]
ChInOut(a, b) == [k |-> "inout", in |-> a, out |-> b]
Mth(n, in, ch, out, ow) == [name |-> n, input |-> in, chan |-> ch, output |-> out, oneway |-> ow]

InputTokens(io) ==
    <<"(">> \o (CASE io.k = "type" -> TypeTokens(io.type) [] io.k = "fields" -> FieldListTokens(io.fields, io.trailing) [] OTHER -> <<>>) \o <<")">>
OutputTokens(io) ==
    CASE io.k = "type" -> TypeTokens(io.type)
      [] io.k = "fields" -> <<"(">> \o FieldListTokens(io.fields, io.trailing) \o <<")">>
      [] OTHER -> <<>>
ChanTokens(c) ==
    CASE c.k = "in" -> <<"(", "<", "-">> \o TypeTokens(c.in) \o <<")">>
      [] c.k = "out" -> <<"(">> \o TypeTokens(c.out) \o <<"-", ">", ")">>
      [] c.k = "inout" -> <<"(", "<", "-">> \o TypeTokens(c.in) \o <<",">> \o TypeTokens(c.out) \o <<"-", ">", ")">>
      [] OTHER -> <<>>
MethodTokens(m) ==
    <<m.name>> \o InputTokens(m.input) \o ChanTokens(m.chan) \o (IF m.oneway THEN <<"oneway">> ELSE OutputTokens(m.output)) \o <<";">>

\* --------------------------------------------------------------- definitions
Enum(n, vs) == [t |-> "enum", name |-> n, values |-> vs]
Message(n, fs, semi) == [t |-> "message", name |-> n, fields |-> fs, semi |-> semi]     \* semi: optional ';' after the last field
Struct(n, fs) == [t |-> "struct", name |-> n, sfields |-> fs]
Service(n, sub, ms) == [t |-> "service", name |-> n, sub |-> sub, methods |-> ms]

DefTokens(d) ==
    CASE d.t = "enum" -> <<"enum", d.name, "{">> \o Cat([i \in DOMAIN d.values |-> <<d.values[i].name, "=", d.values[i].lit, ";">>]) \o <<"}">>
      [] d.t = "message" -> <<"message", d.name, "{">> \o Join([i \in DOMAIN d.fields |-> FieldTokens(d.fields[i])], <<";">>)
                             \o (IF d.semi THEN <<";">> ELSE <<>>) \o <<"}">>
      [] d.t = "struct" -> <<"struct", d.name, "{">> \o Cat([i \in DOMAIN d.sfields |-> <<d.sfields[i].name>> \o TypeTokens(d.sfields[i].type) \o <<";">>]) \o <<"}">>
      [] d.t = "service" -> <<IF d.sub THEN "subservice" ELSE "service", d.name, "{">> \o Cat([i \in DOMAIN d.methods |-> MethodTokens(d.methods[i])]) \o <<"}">>

Q(s) == "\"" \o s \o "\""
FileTokens(f) ==
    (IF f.hasImports THEN <<"import", "(">> \o Cat([i \in DOMAIN f.imports |->
            (IF f.imports[i].alias = "" THEN <<>> ELSE <<f.imports[i].alias>>) \o <<[str |-> f.imports[i].id]>>]) \o <<")">> ELSE <<>>)
    \o (IF f.hasOptions THEN <<"options", "(">> \o Cat([i \in DOMAIN f.options |-> <<f.options[i].name, "=", [str |-> f.options[i].value]>>]) \o <<")">> ELSE <<>>)
    \o Cat([i \in DOMAIN f.defs |-> DefTokens(f.defs[i])])

\* --------------------------------------------------------------- pools (C15)
AllBase == <<"bool", "byte", "int16", "int32", "int64", "uint16", "uint32", "uint64", "float32", "float64",
             "bin64", "bin128", "bin256", "bytes", "string">>
Big63 == "9223372036854775807"

ParseDefs == <<
    Message("M1", <<F("id", B("int32"), "1"), F("name", B("string"), "2"), F("any", TAny, "3")>>, FALSE),
    Message("M2", <<F("message", TMsg, "1"), F("import", L(B("int32")), "2"), F("options", Imp("pkg", "Bar"), "3"),
                    F("struct", L(Imp("pkg", "Bar")), "65535"), F("service", Ref("Foo"), "5"), F("subservice", L(Ref("Foo")), "6")>>, TRUE),
    Message("M3", <<>>, FALSE),
    Message("M4", <<>>, TRUE),
    Message("M5", <<F("big", B("int64"), "65536"), F("huge", B("bool"), Big63), F("zero", B("byte"), "0"),
                    F("lead", B("int32"), "010"), F("leads", B("int32"), "0077")>>, FALSE),       \* numbers are decimal: 10 and 77
    Message("M6", [i \in 1..15 |-> F("f" \o ToString(i), B(AllBase[i]), ToString(i))], TRUE),
    Message("M7", <<F("a", L(TAny), "1"), F("b", L(TMsg), "2"), F("c", L(B("string")), "3"), F("d", L(B("bin128")), "4")>>, FALSE),
    \* qualified references whose last part spells a built-in type name are references all the same
    Message("M8", <<F("q1", Imp("pkg", "string"), "1"), F("q2", L(Imp("pkg", "bin128")), "2"), F("q3", Imp("y", "int64"), "3"),
                    F("q4", Imp("pkg", "bytes"), "4"), F("q5", L(Imp("pkg", "bool")), "5")>>, FALSE),
    Enum("E1", <<EV("UNDEFINED", "0"), EV("ONE", "1"), EV("service", "255"), EV("any", "3")>>),
    Enum("E2", <<>>),
    Enum("E3", <<EV("MAX", "2147483647"), EV("MORE", "2147483648"), EV("MOST", Big63), EV("TEN", "010"), EV("HUNDRED", "0100")>>),
    Struct("S1", <<SF("a", B("int32")), SF("b", Imp("pkg", "Bar")), SF("any", B("string")), SF("message", Ref("S2"))>>),
    Struct("S2", <<>>),
    Struct("S3", <<SF("x", L(B("int32"))), SF("y", TAny), SF("z", TMsg)>>),
    Service("V1", FALSE, <<
        Mth("m1", IOFields(<<>>, FALSE), NoChan, NoIO, FALSE),
        Mth("m2", IOType(Ref("Foo")), NoChan, NoIO, FALSE),
        Mth("m3", IOFields(<<F("a", B("int32"), "1"), F("b", B("string"), "2")>>, FALSE), NoChan, IOFields(<<F("ok", B("bool"), "1")>>, FALSE), FALSE),
        Mth("m4", IOType(Ref("Foo")), NoChan, IOType(Ref("Bar")), FALSE),
        Mth("m5", IOType(Imp("pkg", "Bar")), NoChan, IOType(Imp("pkg", "Bar")), FALSE)>>),
    Service("V2", FALSE, <<
        Mth("m6", IOFields(<<>>, FALSE), NoChan, NoIO, TRUE),
        Mth("m7", IOType(Ref("Foo")), ChIn(Ref("Msg")), NoIO, FALSE),
        Mth("m8", IOType(Ref("Foo")), ChOut(Ref("Msg")), NoIO, FALSE),
        Mth("m9", IOType(Ref("Foo")), ChInOut(Ref("Msg"), Imp("pkg", "Out")), IOType(Ref("Result")), FALSE),
        Mth("m10", IOFields(<<F("a", B("int32"), "1")>>, TRUE), NoChan, IOFields(<<F("x", L(B("string")), "1"), F("y", TAny, "2")>>, TRUE), FALSE)>>),
    Service("V3", TRUE, <<
        Mth("message", IOFields(<<>>, FALSE), NoChan, NoIO, FALSE),
        Mth("import", IOType(Ref("Foo")), NoChan, IOType(Ref("Bar")), FALSE),
        Mth("any", IOFields(<<F("struct", TMsg, "7")>>, FALSE), ChIn(L(B("bytes"))), IOFields(<<>>, FALSE), FALSE),
        Mth("sub", IOType(Ref("Foo")), NoChan, IOType(Ref("V1")), FALSE),
        Mth("lists", IOFields(<<F("a", L(Ref("Foo")), "1")>>, FALSE), ChInOut(L(TAny), L(TMsg)), NoIO, FALSE)>>),
    Service("V4", FALSE, <<>>)
>>

ImportSets == << <<>>, <<[id |-> "pkg/a", alias |-> ""]>>,
                 <<[id |-> "pkg/a", alias |-> ""], [id |-> "long/path/pkg", alias |-> "pkg"], [id |-> "x", alias |-> "y"]>> >>
OptionSets == << <<>>, <<[name |-> "go_package", value |-> "github.com/x/y"]>>,
                 <<[name |-> "go_package", value |-> "a/b"], [name |-> "other", value |-> ""], [name |-> "third", value |-> "v 3"]>> >>

VARIABLES file
vars == <<file>>

EmptyFile(hi, imps, ho, opts) == [hasImports |-> hi, imports |-> imps, hasOptions |-> ho, options |-> opts, defs |-> <<>>]

Init ==
    /\ Mode = "parse"
    /\ \E i \in DOMAIN ImportSets, o \in DOMAIN OptionSets, hi \in BOOLEAN, ho \in BOOLEAN :
          /\ (Len(ImportSets[i]) > 0 => hi) /\ (Len(OptionSets[o]) > 0 => ho)
          /\ file = EmptyFile(hi, ImportSets[i], ho, OptionSets[o])

Next ==
    /\ Len(file.defs) < MaxDefs
    /\ \E d \in DOMAIN ParseDefs : file' = [file EXCEPT !.defs = Append(@, ParseDefs[d])]

Spec == Init /\ [][Next]_vars

\* the token sequence determines the tree: two different files never render to the same tokens
Record == [ast |-> file, tokens |-> FileTokens(file)]
Emit == PrintT(ToJson(Record))
=============================================================================
