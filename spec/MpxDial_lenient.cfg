SPECIFICATION Spec
CONSTANTS
  MaxSteps = 4
  Lenient = TRUE
INVARIANTS OnlyNegotiated
