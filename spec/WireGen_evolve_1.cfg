SPECIFICATION Spec
CONSTANTS
  Mode = "evolve"
  Level = 1
INVARIANTS RoundTripInv CodecInverse WidenNarrow AgreeInv LocalInv TagIndependence
CONSTRAINT Emit
