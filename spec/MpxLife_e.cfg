SPECIFICATION Spec
CONSTANTS
  Frames <- FramesA
  WithCloser = TRUE
  UserEnds = "sendclose"
INVARIANTS NoPrematureRelease NoLibraryPanic NoUseAfterRelease RefsNonNegative ReleasedOnce EndedClean
VIEW View
