------------------------------- MODULE MpxDial -------------------------------
(***************************************************************************)
(* One client-side connection of mpx as seen by a (possibly hostile)       *)
(* server: the mirror image of MpxServer (C11) for the dialling role, and  *)
(* the connection-level half of C09 / C19 (no call hangs, the client       *)
(* recovers).                                                              *)
(*                                                                         *)
(* Transcribed from mpx/conn_handshake.go (handshakeAsClient: the client   *)
(* writes its protocol line and connect request at once, then reads the    *)
(* server's line and connect response), mpx/conn.go (Channel waits for the *)
(* handshake or the close of the connection or its own context),           *)
(* mpx/conn_receive.go (the same receive switch serves both roles),        *)
(* mpx/connector.go (a client connection answers channels opened by the    *)
(* server with an error status and stays alive), mpx/client.go (Channel    *)
(* returns the outcome of the connection it was given, without retrying).  *)
(*                                                                         *)
(* The server's steps and the client's calls are the inputs; the client's  *)
(* reaction is deterministic once it is quiescent, so every behaviour is a *)
(* script with a prediction after each step.                               *)
(***************************************************************************)
EXTENDS Integers, Sequences, FiniteSets, TLC, Json

CONSTANTS MaxSteps,   \* bound on steps per script
          Lenient     \* TRUE: a client that takes any connect response for an acceptance (TLC must then find OnlyNegotiated violated)

VARIABLES hs,         \* "line" | "response" | "open" | "dead": what the server has to send next
          lz4,        \* the accepted response chose lz4: both directions are compressed from here on
          call,       \* the client's Channel() call: "none" | "waiting" | "ok" | "failed" | "timeout"
          chan,       \* the channel the call returned: "none" | "fresh" (nothing sent yet) | "open" | "ended" (closed by the server)
                      \* | "lost" (the connection died under it) | "done" (its end has been received)
          sopen,      \* server-initiated channels the client has answered
          nsent,      \* messages the server has sent on the client's channel that the client has not received yet
          script

vars == <<hs, lz4, call, chan, sopen, nsent, script>>

Init == /\ hs = "line" /\ lz4 = FALSE /\ call = "none" /\ chan = "none" /\ sopen = 0 /\ nsent = 0 /\ script = <<>>

Budget == Len(script) < MaxSteps

Pred == [alive |-> hs' # "dead", call |-> call', chan |-> chan', lz4 |-> lz4']
Step(op) == script' = Append(script, op @@ [pred |-> Pred])

\* the connection dies: a waiting call fails, the channel ends
Die == /\ hs' = "dead"
       /\ call' = (IF call = "waiting" THEN "failed" ELSE call)
       /\ chan' = (IF chan \in {"fresh", "open"} THEN "lost" ELSE chan)
       /\ UNCHANGED <<lz4, sopen, nsent>>

\* the handshake completes: a waiting call gets its channel
Establish(z) == /\ hs' = "open" /\ lz4' = z
                /\ IF call = "waiting" THEN call' = "ok" /\ chan' = "fresh" ELSE UNCHANGED <<call, chan>>
                /\ UNCHANGED <<sopen, nsent>>

\* ------------------------------------------------------------ the client's calls
\* Channel(ctx) with a long deadline, in a goroutine of its own; it returns at once on an established connection,
\* fails at once on a dead one (the harness keeps the client from dialling again during the script)
CCall ==
    /\ Budget /\ call = "none"
    /\ CASE hs = "open" -> call' = "ok" /\ chan' = "fresh"
         [] hs = "dead" -> call' = "failed" /\ UNCHANGED chan
         [] OTHER -> call' = "waiting" /\ UNCHANGED chan
    /\ UNCHANGED <<hs, lz4, sopen, nsent>>
    /\ Step([op |-> "c.call"])

\* Channel(ctx) with a short deadline while the handshake is still under way: it returns with the status of its context,
\* the connection is not harmed
CCallShort ==
    /\ Budget /\ call = "none" /\ hs \in {"line", "response"}
    /\ call' = "timeout"
    /\ UNCHANGED <<hs, lz4, chan, sopen, nsent>>
    /\ Step([op |-> "c.callshort"])

\* the outcome of a short call is forgotten: the client may call again
CForget ==
    /\ Budget /\ call = "timeout"
    /\ call' = "none"
    /\ UNCHANGED <<hs, lz4, chan, sopen, nsent>>
    /\ Step([op |-> "c.forget"])

\* the first Send on the channel: the server reads an open frame with the message
CSend ==
    /\ Budget /\ chan \in {"fresh", "open"} /\ hs = "open"
    /\ chan' = "open"
    /\ UNCHANGED <<hs, lz4, call, sopen, nsent>>
    /\ Step([op |-> "c.send", first |-> (chan = "fresh")])

\* Receive: a message the server sent, or the end of the channel (with the failure of the connection as its status)
CRecv ==
    /\ Budget /\ chan \in {"open", "ended", "lost"} /\ (nsent > 0 \/ chan # "open")
    /\ nsent' = (IF nsent > 0 THEN nsent - 1 ELSE 0)
    /\ chan' = (IF nsent = 0 THEN "done" ELSE chan)
    /\ UNCHANGED <<hs, lz4, call, sopen>>
    /\ Step([op |-> "c.recv", data |-> (nsent > 0), how |-> (IF nsent > 0 THEN "data" ELSE chan)])

\* ------------------------------------------------------------ the server's handshake steps
LineKinds == {"good", "other", "crlf", "spaces", "eof"}
SLine(kind) ==
    /\ Budget /\ hs = "line"
    /\ IF kind = "good" THEN hs' = "response" /\ UNCHANGED <<lz4, call, chan, sopen, nsent>> ELSE Die
    /\ Step([op |-> "s.line", kind |-> kind])

\* "ok" | "lz4" (accepted with lz4, asked for or not: the client follows the server's choice)
\* | "refused" | "version0" | "version2" (an unknown version) | "badcomp" (an unknown compression: refused by the client)
\* | "notresponse" (some other message) | "request" (a connect request) | "garbage" | "malformed" | "eof"
RespKinds == {"ok", "lz4", "refused", "version0", "version2", "badcomp", "notresponse", "request", "garbage", "malformed", "eof"}
Accepting(kind) == kind \in {"ok", "lz4"} \/ (Lenient /\ kind \in {"version2", "badcomp"})
SResponse(kind) ==
    /\ Budget /\ hs = "response"
    /\ IF Accepting(kind) THEN Establish(kind = "lz4") ELSE Die
    /\ Step([op |-> "s.response", kind |-> kind])

\* ------------------------------------------------------------ established
\* a message on the client's channel
SData ==
    /\ Budget /\ hs = "open" /\ chan = "open" /\ nsent < 2
    /\ nsent' = nsent + 1
    /\ UNCHANGED <<hs, lz4, call, chan, sopen>>
    /\ Step([op |-> "s.data"])

\* the server closes the client's channel
SClose ==
    /\ Budget /\ hs = "open" /\ chan = "open"
    /\ chan' = "ended"
    /\ UNCHANGED <<hs, lz4, call, sopen, nsent>>
    /\ Step([op |-> "s.close"])

\* the server opens a channel of its own: the client answers with a close frame that carries an error and goes on
SOpen ==
    /\ Budget /\ hs = "open" /\ sopen < 2
    /\ sopen' = sopen + 1
    /\ UNCHANGED <<hs, lz4, call, chan, nsent>>
    /\ Step([op |-> "s.open", id |-> sopen + 1])

\* frames for channels the client does not know: dropped silently
STraffic(kind) ==
    /\ Budget /\ hs = "open"
    /\ UNCHANGED <<hs, lz4, call, chan, sopen, nsent>>
    /\ Step([op |-> "s.stray", kind |-> kind])

\* "unknowncode" | "nestedbatch" | "garbage" | "badmessage" | "truncated" | "eof" | "responseagain" | "malformed"
\* | "dupopen" (the client's own channel id opened by the server)
HostileKinds == {"unknowncode", "nestedbatch", "garbage", "badmessage", "truncated", "eof", "responseagain", "malformed"}
SHostile(kind) ==
    /\ Budget /\ hs = "open"
    /\ Die
    /\ Step([op |-> "s.hostile", kind |-> kind])

SDupOpen ==
    /\ Budget /\ hs = "open" /\ chan = "open"
    /\ Die
    /\ Step([op |-> "s.hostile", kind |-> "dupopen"])

Next == \/ CCall \/ CCallShort \/ CForget \/ CSend \/ CRecv
        \/ \E k \in LineKinds : SLine(k)
        \/ \E k \in RespKinds : SResponse(k)
        \/ SData \/ SClose \/ SOpen \/ SDupOpen
        \/ \E k \in {"data", "window", "close"} : STraffic(k)
        \/ \E k \in HostileKinds : SHostile(k)

Spec == Init /\ [][Next]_vars

\* ------------------------------------------------------------- properties
\* a call succeeds only on a connection whose server accepted with the supported version and a known compression
Accepted == \E k \in DOMAIN script : script[k].op = "s.response" /\ script[k].kind \in {"ok", "lz4"}
OnlyNegotiated == (call = "ok" \/ chan # "none") => Accepted
\* no call is left waiting on a dead connection
DeadMeansAnswered == hs = "dead" => call # "waiting" /\ chan \notin {"fresh", "open"}
\* a short call never harms the connection
ShortIsHarmless == \A k \in DOMAIN script : script[k].op = "c.callshort" => script[k].pred.alive

Finished == Len(script) = MaxSteps \/ (hs = "dead" /\ call \in {"ok", "failed"} /\ chan \in {"none", "done"})
Emit == Finished => PrintT(ToJson([script |-> script]))
=============================================================================
