----------------------------- MODULE MpxWinWake -----------------------------
(***************************************************************************)
(* The wait of a sender for send window against the arrival of window      *)
(* updates (C07: no interleaving of data and window updates deadlocks).    *)
(*                                                                         *)
(* Transcribed from mpx/channel_state.go: decrementSendWindow loads the    *)
(* window; if it is not enough (window < size and window < initial / 2) it *)
(* goes to sleep on sendWindowWait, a channel with ONE buffered token;     *)
(* receiveWindow adds the delta and puts the token unless one is there.    *)
(* Between the load and the sleep (the verif gate "send.wait") an update   *)
(* may arrive: the buffered token is what keeps it from being lost.        *)
(*                                                                         *)
(* Observable states of the sender: "idle" (Send not called yet), "gate"   *)
(* (loaded, window not enough, about to sleep), "asleep", "done".  One     *)
(* step of the sender runs until the next observable state.                *)
(* Buffered = FALSE models a wait channel without the buffer: TLC then     *)
(* finds the sender asleep with enough window (lost wake-up).              *)
(***************************************************************************)
EXTENDS Integers, Sequences, TLC, Json

CONSTANTS W,          \* initial window of the channel
          Size,       \* size of the message being sent
          Buffered

VARIABLES Deltas,     \* the window updates the peer sends, in order (chosen initially)
          window, token, snd, nupd, sched

vars == <<Deltas, window, token, snd, nupd, sched>>

\* one update that is enough, one that is not followed by one that is, crumbs, exactly half the window
DeltaChoices == {<<Size>>, <<1, Size>>, <<1, 1, Size>>, <<W \div 2>>, <<1, (W \div 2) - 1>>, <<W>>, <<1, 1>>}

\* the sender has used the window up before this Send
Init == Deltas \in DeltaChoices /\ window = 0 /\ token = FALSE /\ snd = "idle" /\ nupd = 0 /\ sched = <<>>

Enough(w) == w >= Size \/ w >= W \div 2

\* what the sender does after a load: take the window or go to the gate
Load(w) == IF Enough(w) THEN "done" ELSE "gate"

Step(who, op) == sched' = Append(sched, [who |-> who, op |-> op, snd |-> snd', window |-> window']) /\ UNCHANGED Deltas

\* Send is called
SStart ==
    /\ snd = "idle"
    /\ snd' = Load(window)
    /\ window' = IF Enough(window) THEN window - Size ELSE window
    /\ UNCHANGED <<token, nupd>>
    /\ Step("S", "start")

\* the sender leaves the gate: with a token waiting it takes it and loads again, otherwise it falls asleep
SGo ==
    /\ snd = "gate"
    /\ IF token
       THEN /\ token' = FALSE /\ snd' = Load(window)
            /\ window' = IF Enough(window) THEN window - Size ELSE window
       ELSE /\ snd' = "asleep" /\ UNCHANGED <<token, window>>
    /\ UNCHANGED nupd
    /\ Step("S", "go")

\* a window update is applied by the receive loop; a sleeping sender is woken and loads again
PUpdate ==
    /\ nupd < Len(Deltas)
    /\ nupd' = nupd + 1
    /\ LET w == window + Deltas[nupd + 1] IN
       IF snd = "asleep"
       THEN /\ snd' = Load(w) /\ window' = (IF Enough(w) THEN w - Size ELSE w) /\ token' = FALSE
       ELSE /\ window' = w /\ UNCHANGED snd
            /\ token' = (IF Buffered THEN TRUE ELSE token)      \* without the buffer the token is dropped
    /\ Step("P", "update")

Next == SStart \/ SGo \/ PUpdate

Spec == Init /\ [][Next]_vars

Done == nupd = Len(Deltas) /\ snd \notin {"idle", "gate"}

\* ------------------------------------------------------------- properties
\* a sender never sleeps on a window that is enough
NoLostWakeup == snd = "asleep" => ~Enough(window)
\* the window never goes below what was granted minus what was sent
WindowSane == window >= -Size

Emit == Done => PrintT(ToJson([w |-> W, size |-> Size, deltas |-> Deltas, sched |-> sched, final |-> snd]))
=============================================================================
