----------------------------- MODULE MpxWinWake -----------------------------
(***************************************************************************)
(* The wait of senders for send window against the arrival of window       *)
(* updates (C07: no interleaving of data and window updates deadlocks).    *)
(*                                                                         *)
(* Transcribed from mpx/channel.go (Send holds the channel's send mutex    *)
(* from start to end) and mpx/channel_state.go: decrementSendWindow loads  *)
(* the window; if it is not enough (window < size and window < initial/2)  *)
(* it goes to sleep on sendWindowWait, a channel with ONE buffered token;  *)
(* receiveWindow adds the delta and puts the token unless one is there.    *)
(* Between the load and the sleep (the verif gate "send.wait") an update   *)
(* may arrive: the buffered token is what keeps it from being lost.  The   *)
(* one-token channel serves one waiter: the send mutex sees to it that     *)
(* there is only one (a second Send on the same channel queues up behind   *)
(* the first).                                                             *)
(*                                                                         *)
(* Observable states of a sender: "idle" (Send not called yet), "queued"   *)
(* (waiting for the send mutex), "gate" (loaded, window not enough, about  *)
(* to sleep), "asleep", "done".  One step of a sender runs until its next  *)
(* observable state.  Sender 2 (one byte) calls Send while sender 1 is     *)
(* inside.                                                                 *)
(* Buffered = FALSE models a wait channel without the buffer: TLC then     *)
(* finds a sender asleep with enough window (lost wake-up).                *)
(***************************************************************************)
EXTENDS Integers, Sequences, TLC, Json

CONSTANTS W,          \* initial window of the channel
          Size,       \* size of the message of sender 1
          Buffered

VARIABLES Deltas,     \* the window updates the peer sends, in order (chosen initially)
          Two,        \* a second sender takes part (chosen initially)
          window, token, snd, nupd, sched

vars == <<Deltas, Two, window, token, snd, nupd, sched>>

Senders == {1, 2}
SizeOf(i) == IF i = 1 THEN Size ELSE 1
Other(i) == 3 - i

\* one update that is enough, one that is not followed by one that is, crumbs, exactly half the window
DeltaChoices == {<<Size>>, <<1, Size>>, <<1, 1, Size>>, <<W \div 2>>, <<1, (W \div 2) - 1>>, <<W>>, <<1, 1>>}

\* the senders have used the window up before
Init == /\ Deltas \in DeltaChoices /\ Two \in BOOLEAN /\ window = 0 /\ token = FALSE
        /\ snd = [i \in Senders |-> "idle"] /\ nupd = 0 /\ sched = <<>>

Enough(w, i) == w >= SizeOf(i) \/ w >= W \div 2

Step(who, op) == sched' = Append(sched, [who |-> who, op |-> op, snd1 |-> snd'[1], snd2 |-> snd'[2], window |-> window'])
                 /\ UNCHANGED <<Deltas, Two>>

\* Sender i, holding the send mutex, loads window w: it takes its share and is done - and then the other sender, if it
\* is queued on the mutex, gets its turn at once - or it goes to the gate.
RECURSIVE After(_, _, _)
After(i, w, s) ==
    IF Enough(w, i)
    THEN LET w1 == w - SizeOf(i)
             s1 == [s EXCEPT ![i] = "done"]
             j == Other(i)
         IN IF s1[j] = "queued" THEN After(j, w1, s1) ELSE [w |-> w1, s |-> s1]
    ELSE [w |-> w, s |-> [s EXCEPT ![i] = "gate"]]

Inside(i) == snd[i] \in {"gate", "asleep"}

\* Send is called by sender i
SStart(i) ==
    /\ snd[i] = "idle" /\ (i = 2 => (Two /\ snd[1] # "idle"))
    /\ IF Inside(Other(i))
       THEN snd' = [snd EXCEPT ![i] = "queued"] /\ UNCHANGED window
       ELSE LET r == After(i, window, snd) IN snd' = r.s /\ window' = r.w
    /\ UNCHANGED <<token, nupd>>
    /\ Step(i, "start")

\* the sender at the gate goes on: with a token waiting it takes it and loads again, otherwise it falls asleep
SGo(i) ==
    /\ snd[i] = "gate"
    /\ IF token
       THEN LET r == After(i, window, snd) IN token' = FALSE /\ snd' = r.s /\ window' = r.w
       ELSE snd' = [snd EXCEPT ![i] = "asleep"] /\ UNCHANGED <<token, window>>
    /\ UNCHANGED nupd
    /\ Step(i, "go")

\* a window update is applied by the receive loop; a sleeping sender is woken and loads again
PUpdate ==
    /\ nupd < Len(Deltas)
    /\ nupd' = nupd + 1
    /\ LET w == window + Deltas[nupd + 1]
           sleepers == {i \in Senders : snd[i] = "asleep"}
       IN IF sleepers # {}
          THEN LET i == CHOOSE i \in sleepers : TRUE
                   r == After(i, w, snd)
               IN snd' = r.s /\ window' = r.w /\ token' = FALSE
          ELSE /\ window' = w /\ UNCHANGED snd
               /\ token' = (IF Buffered THEN TRUE ELSE token)      \* without the buffer the token is dropped
    /\ Step(0, "update")

Next == (\E i \in Senders : SStart(i) \/ SGo(i)) \/ PUpdate

Spec == Init /\ [][Next]_vars

Done == nupd = Len(Deltas) /\ \A i \in Senders : snd[i] \notin {"gate"} /\ (snd[i] = "idle" => (i = 2 /\ ~Two)) /\ (Two => snd[2] # "idle")

\* ------------------------------------------------------------- properties
\* a sender never sleeps on a window that is enough
NoLostWakeup == \A i \in Senders : snd[i] = "asleep" => ~Enough(window, i)
\* the one-token wait channel serves one waiter
OneInside == ~(Inside(1) /\ Inside(2))
\* nobody stays queued behind a sender that is done
NoStuckQueue == \A i \in Senders : snd[i] = "queued" => Inside(Other(i))
WindowSane == window >= -Size - 1

Emit == Done => PrintT(ToJson([w |-> W, size |-> Size, deltas |-> Deltas, two |-> Two, sched |-> sched,
                                 final1 |-> snd[1], final2 |-> snd[2]]))
=============================================================================
