----------------------------- MODULE MpxBlocked -----------------------------
(***************************************************************************)
(* A channel operation that is blocked on the connection's full write      *)
(* queue while the channel or the connection ends (C06, C09).              *)
(*                                                                         *)
(* Transcribed from mpx/channel.go (Send, SendAndClose, closeUser),        *)
(* mpx/conn.go (send: write to the queue, else wait for space or for the   *)
(* context) and mpx/conn_receive.go (receiveClose).  Send and SendAndClose *)
(* wait with the caller's context, Free (closeUser) waits with the         *)
(* channel's own context, which the peer's close frame cancels.            *)
(*                                                                         *)
(* One user operation on channel X, one event that ends X from the peer    *)
(* ("peerclose"), and one event that ends the congestion: the peer reads   *)
(* again ("drain") or the connection is dropped ("drop").  Every order of  *)
(* the three is a schedule; mblocked replays each on a real connection     *)
(* whose peer has stopped reading.                                         *)
(***************************************************************************)
EXTENDS Integers, Sequences, TLC, Json

VARIABLES Op,        \* "send" | "sendclose" | "free"    (chosen initially)
          Ending,    \* "drain" | "drop" | "halfclose" (the peer closes only its sending side, without reading: the receive
                     \* loop ends while the send loop sits in a socket write; the connection has to close all the same)
          Cause,     \* what blocks: "queue" (write queue full) | "window" (the channel's send window is used up: only Send
                     \* waits for it, with the caller's context AND the channel's, channel_state.go decrementSendWindow);
                     \* "drain" then stands for the peer's window update
          qfull,     \* the write queue has no room (the peer does not read) / the window is used up
          dropped,   \* the connection is gone
          chClosed,  \* X was ended by the peer: closed flag set, channel context cancelled
          phase,     \* "none" | "waiting" (inside conn.send, waiting for room) | "returned"
          result,    \* "none" | "ok" | "closed" (any non-OK status) ; Free returns nothing: "ok" means it returned
          enq,       \* frames of X the operation put into the write queue
          sched      \* the steps so far

vars == <<Op, Ending, Cause, qfull, dropped, chClosed, phase, result, enq, sched>>

Init == /\ Op \in {"send", "sendclose", "free"} /\ Ending \in {"drain", "drop", "halfclose"}
        /\ Cause \in {"queue", "window"} /\ (Cause = "window" => Op = "send")
        /\ qfull = TRUE /\ dropped = FALSE /\ chClosed = FALSE /\ phase = "none" /\ result = "none" /\ enq = 0
        /\ sched = <<>>

Frame == 1       \* one frame either way (data, close+payload, close)
Step(a) == sched' = Append(sched, [a |-> a, phase |-> phase', result |-> result']) /\ UNCHANGED <<Op, Ending, Cause>>

\* the user calls the operation
Start ==
    /\ phase = "none"
    /\ IF dropped
       THEN \* the channel was ended by the connection: closed flag is set
            phase' = "returned" /\ result' = (IF Op = "free" THEN "ok" ELSE "closed") /\ UNCHANGED enq
       ELSE IF chClosed
       THEN phase' = "returned" /\ result' = (IF Op = "free" THEN "ok" ELSE "closed") /\ UNCHANGED enq
       ELSE IF qfull
       THEN phase' = "waiting" /\ UNCHANGED <<result, enq>>
       ELSE phase' = "returned" /\ result' = "ok" /\ enq' = enq + Frame
    /\ UNCHANGED <<qfull, dropped, chClosed>>
    /\ Step("start")

\* the peer's close frame for X is handled by the receive loop
PeerClose ==
    /\ ~chClosed /\ ~dropped
    /\ chClosed' = TRUE
    /\ IF phase = "waiting" /\ Op = "free"
       THEN phase' = "returned" /\ result' = "ok"      \* the cancelled status of the wait is swallowed, Free returns
       ELSE IF phase = "waiting" /\ Cause = "window"
       THEN phase' = "returned" /\ result' = "closed"  \* the wait for window also watches the channel's context
       ELSE UNCHANGED <<phase, result>>                 \* Send / SendAndClose wait for queue room with the caller's context
    /\ UNCHANGED <<qfull, dropped, enq>>
    /\ Step("peerclose")

\* the peer reads again: the queue gets room
Drain ==
    /\ Ending = "drain" /\ qfull
    /\ qfull' = FALSE
    /\ IF phase = "waiting"
       THEN phase' = "returned" /\ result' = "ok" /\ enq' = enq + Frame
       ELSE UNCHANGED <<phase, result, enq>>
    /\ UNCHANGED <<dropped, chClosed>>
    /\ Step("drain")

\* the connection is dropped: the queue is closed, every channel ends
Drop ==
    /\ Ending \in {"drop", "halfclose"} /\ ~dropped
    /\ dropped' = TRUE /\ chClosed' = TRUE
    /\ IF phase = "waiting"
       THEN phase' = "returned" /\ result' = (IF Op = "free" THEN "ok" ELSE "closed")
       ELSE UNCHANGED <<phase, result>>
    /\ UNCHANGED <<qfull, enq>>
    /\ Step(Ending)

Next == Start \/ PeerClose \/ Drain \/ Drop

Spec == Init /\ [][Next]_vars

Done == phase = "returned" /\ (~qfull \/ dropped)

\* ------------------------------------------------------------- properties
\* whatever the order, the operation has returned once the congestion is over
ReturnsWhenOver == (phase # "none" /\ (~qfull \/ dropped)) => phase = "returned"
\* a blocked operation is released only by what the code waits for
WaitingMeansFull == phase = "waiting" => qfull /\ ~dropped
\* Free never fails
FreeReturnsOk == (Op = "free" /\ phase = "returned") => result = "ok"
\* at most one frame is written for the operation, and none after the connection is gone
OneFrame == enq <= 1

Emit == Done => PrintT(ToJson([op |-> Op, cause |-> Cause, sched |-> sched, result |-> result, enq |-> enq]))
=============================================================================
