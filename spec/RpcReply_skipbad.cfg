SPECIFICATION Spec
CONSTANTS
  MaxFrames = 2
  SkipBad = TRUE
INVARIANTS OkOnlyIfClean
