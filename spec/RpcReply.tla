------------------------------ MODULE RpcReply ------------------------------
(***************************************************************************)
(* What an RPC caller makes of the frames a server writes on the call's    *)
(* channel, well-formed or not (C04: a malformed reply surfaces as a       *)
(* non-OK status, never as OK).                                            *)
(*                                                                         *)
(* Transcribed from rpc/client_channel.go: Receive / ReceiveAsync (a       *)
(* message is handed out, End and a response end the stream, anything that *)
(* does not parse or has another type fails the channel for good),         *)
(* Response (failed: the same failure again; a response already seen: its  *)
(* outcome; otherwise messages and End are passed over until a response,   *)
(* a frame that does not parse, or the end of the channel), and            *)
(* rpc/client.go Request (= Channel, Response, Free).                      *)
(*                                                                         *)
(* The server here is not the library's: it is a handler on the mpx level  *)
(* which writes the frames of the script, so every sequence of well-formed *)
(* and malformed frames is a behaviour.  The caller's observations are a   *)
(* function of the sequence; TLC enumerates the sequences and checks that  *)
(* OK is only ever observed for an OK response that was sent with nothing  *)
(* malformed before it.                                                    *)
(***************************************************************************)
EXTENDS Integers, Sequences, TLC, Json

CONSTANTS MaxFrames,
          SkipBad       \* TRUE: a caller that passes over frames it cannot parse (TLC must then find OkOnlyIfClean violated)

VARIABLES frames, mode
vars == <<frames, mode>>

\* well-formed: a stream message, the end marker, a response with OK and a result, a response with an application status,
\* a response without a status (its code is empty: not OK)
\* malformed: bytes that are no message, a cut response, a request, a message of an undefined type, a structurally
\* invalid value from the catalogue of MpxServer
Resp == {"rok", "rapp", "rnostatus"}
Bad == {"garbage", "truncated", "wrongtype", "undeftype", "malformed"}
Kinds == {"msg", "end"} \cup Resp \cup Bad

Init == /\ frames \in UNION {[1..n -> Kinds] : n \in 0..MaxFrames}
        /\ mode \in {"unary", "stream", "oneway"}      \* oneway: the caller sends its request and does not look at the channel again
Next == UNCHANGED vars
Spec == Init /\ [][Next]_vars

\* Response() reading on from frame i
RECURSIVE Final(_, _)
Final(fr, i) ==
    IF i > Len(fr) THEN "lost"                               \* the channel ended without a response
    ELSE IF fr[i] \in {"msg", "end"} THEN Final(fr, i + 1)
    ELSE IF fr[i] \in Resp THEN fr[i]
    ELSE IF SkipBad THEN Final(fr, i + 1) ELSE "rpc_error"

\* the Receive calls of a streaming caller, until the first one that does not return a message
RECURSIVE Recvs(_, _)
Recvs(fr, i) ==
    IF i > Len(fr) THEN <<[r |-> "lost", at |-> i]>>
    ELSE IF fr[i] = "msg" THEN <<[r |-> "data", at |-> i]>> \o Recvs(fr, i + 1)
    ELSE IF fr[i] = "end" \/ fr[i] \in Resp THEN <<[r |-> "end", at |-> i]>>
    ELSE IF SkipBad THEN Recvs(fr, i + 1) ELSE <<[r |-> "rpc_error", at |-> i]>>

\* what Response() returns after that loop
StreamFinal(fr) ==
    LET rs == Recvs(fr, 1)
        last == rs[Len(rs)]
    IN CASE last.r = "rpc_error" -> "rpc_error"               \* the failure is sticky
         [] last.r = "lost" -> "lost"
         [] fr[last.at] \in Resp -> fr[last.at]                  \* the response was kept when it ended the stream
         [] OTHER -> Final(fr, last.at + 1)                      \* after the end marker: read on

Outcome == CASE mode = "unary" -> Final(frames, 1)
             [] mode = "stream" -> StreamFinal(frames)
             [] OTHER -> "sent"                                   \* whatever the server writes: the request was sent

\* ------------------------------------------------------------- properties
\* position of the frame that decided an OK outcome
Clean(i) == \A j \in 1..(i - 1) : frames[j] \in {"msg", "end"}
OkOnlyIfClean == Outcome = "rok" => \E i \in 1..Len(frames) : frames[i] = "rok" /\ Clean(i)
\* a streaming caller sees the messages sent before anything else, in order, and nothing after the end
DataIsPrefix == mode = "stream" =>
    LET rs == Recvs(frames, 1) IN
    \A k \in 1..Len(rs) : rs[k].r = "data" => (SkipBad \/ rs[k].at = k)

Emit == PrintT(ToJson([mode |-> mode, frames |-> frames, final |-> Outcome,
                       recvs |-> IF mode = "stream" THEN [k \in 1..Len(Recvs(frames, 1)) |-> Recvs(frames, 1)[k].r] ELSE <<>>]))
=============================================================================
