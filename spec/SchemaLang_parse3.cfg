SPECIFICATION Spec
CONSTANTS
  Mode = "parse"
  MaxDefs = 3
CONSTRAINT Emit
