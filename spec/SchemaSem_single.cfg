SPECIFICATION SSpec
CONSTANTS
  Mode = "sem"
  MaxDefs = 0
  Family = "single"
  MaxFields = 1
INVARIANTS VerdictConsistent TagsDistinct
CONSTRAINT SEmit
