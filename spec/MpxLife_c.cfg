SPECIFICATION Spec
CONSTANTS
  Frames <- FramesA
  WithCloser = TRUE
  UserEnds = "none"
INVARIANTS NoPrematureRelease NoLibraryPanic NoUseAfterRelease RefsNonNegative ReleasedOnce EndedClean
VIEW View
