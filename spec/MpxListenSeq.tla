----------------------------- MODULE MpxListenSeq -----------------------------
(***************************************************************************)
(* Close listeners of one connection as a set (C20): several listeners are  *)
(* registered and unsubscribed in any order, the connection closes at any  *)
(* point.  A listener fires exactly once iff it is registered at the       *)
(* moment of the close; unsubscribing one listener never affects another;  *)
(* a registration after the close reports "closed" and never fires.        *)
(* (MpxListen.tla covers the interleavings of ONE registration with the    *)
(* close at the granularity of the code's atomic steps; this module covers *)
(* the sequential behaviour of MANY listeners, which is where identifiers  *)
(* of listeners matter.)  TLC enumerates every operation sequence up to    *)
(* MaxOps; mlisten -seq executes each on a real connection.                *)
(***************************************************************************)
EXTENDS Naturals, Sequences, FiniteSets, TLC, Json

CONSTANTS Listeners, MaxOps

VARIABLES reg, ever, closed, fired, ops
vars == <<reg, ever, closed, fired, ops>>

Init == reg = {} /\ ever = {} /\ closed = FALSE /\ fired = [x \in Listeners |-> 0] /\ ops = <<>>

Register(x) ==
    /\ x \notin ever /\ Len(ops) < MaxOps
    /\ ever' = ever \cup {x}
    /\ reg' = IF closed THEN reg ELSE reg \cup {x}
    /\ ops' = Append(ops, [op |-> "register", l |-> x, res |-> IF closed THEN "closed" ELSE "ok"])
    /\ UNCHANGED <<closed, fired>>

\* the unsubscribe function returned by a successful registration; calling it again or after the close changes nothing
Unsub(x) ==
    /\ x \in ever /\ Len(ops) < MaxOps
    /\ \E i \in DOMAIN ops : ops[i].op = "register" /\ ops[i].l = x /\ ops[i].res = "ok"
    /\ reg' = reg \ {x}
    /\ ops' = Append(ops, [op |-> "unsub", l |-> x, res |-> "na"])
    /\ UNCHANGED <<ever, closed, fired>>

Close ==
    /\ ~closed /\ Len(ops) < MaxOps
    /\ closed' = TRUE
    /\ fired' = [x \in Listeners |-> IF x \in reg THEN fired[x] + 1 ELSE fired[x]]
    /\ reg' = {}
    /\ ops' = Append(ops, [op |-> "close", l |-> "", res |-> "na"])
    /\ UNCHANGED ever

Next == (\E x \in Listeners : Register(x) \/ Unsub(x)) \/ Close
Spec == Init /\ [][Next]_vars

AtMostOnce == \A x \in Listeners : fired[x] <= 1
OnlyRegistered == \A x \in Listeners : fired[x] = 1 => x \in ever

\* the harness closes the connection at the end if the sequence did not
Final == IF closed THEN fired ELSE [x \in Listeners |-> IF x \in reg THEN fired[x] + 1 ELSE fired[x]]
Emit == (Len(ops) = MaxOps) => PrintT(ToJson([ops |-> ops, fired |-> Final]))
=============================================================================
