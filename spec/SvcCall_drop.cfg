SPECIFICATION Spec
CONSTANTS
  MaxIn = 1
  MaxOut = 1
  Kinds = {"unary", "in", "out", "inout"}
  Outcomes = {"ok", "app", "panic"}
  EarlyEnd = FALSE
  WithDrop = TRUE
  WithFree = FALSE
INVARIANTS HandlerAfterCall OutcomeIsHandlers StreamPrefix EndAfterAll CanFinish RpcInvariants
PROPERTIES RefinesRpc
CONSTRAINT EmitDrop
