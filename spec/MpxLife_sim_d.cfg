SPECIFICATION Spec
CONSTANTS
  Frames <- FramesA
  WithCloser = FALSE
  UserEnds = "sendclose"


CONSTRAINT Emit
