-------------------------------- MODULE Rpc --------------------------------
(***************************************************************************)
(* RPC calls as seen at the public API of both ends (C04).                 *)
(*                                                                         *)
(* One mpx channel per call (rpc/client.go channel, server.go              *)
(* HandleChannel): the request is the first message, stream messages       *)
(* follow in both directions, the response is the closing frame carrying   *)
(* status code, message and result; a oneway call gets no response         *)
(* (skip_response); a handler panic is recovered into a status.            *)
(*                                                                         *)
(* Calls are keyed by an id that the harness puts into the request and     *)
(* into every result and stream message, so that "its own" is observable.  *)
(* The same actions serve exhaustive exploration (RpcMC) and validation of *)
(* recorded call histories (RpcTrace).                                     *)
(***************************************************************************)
EXTENDS Integers, Sequences, FiniteSets, TLC

CONSTANTS Calls      \* call ids

VARIABLES kind,      \* i -> "none" (not begun) | "unary" | "oneway" | "stream"
          runs,      \* i -> handler invocations
          hret,      \* i -> handler outcome: [code, msg, res] | "none" | "panic"
          cend,      \* i -> client outcome: [code, msg, res] | "none"
          c2s, s2c,  \* i -> [sent: sequence of message numbers, got: how many the other side received, endSent, endSeen]
          failed     \* the transport failed (fault injected)

rvars == <<kind, runs, hret, cend, c2s, s2c, failed>>

NoOut == [code |-> "none", msg |-> "", res |-> 0]
PanicOut == [code |-> "panic", msg |-> "", res |-> 0]
NoStream == [sent |-> <<>>, got |-> 0, endSent |-> FALSE, endSeen |-> FALSE]

RInit == /\ kind = [i \in Calls |-> "none"] /\ runs = [i \in Calls |-> 0] /\ hret = [i \in Calls |-> NoOut]
         /\ cend = [i \in Calls |-> NoOut] /\ c2s = [i \in Calls |-> NoStream] /\ s2c = [i \in Calls |-> NoStream]
         /\ failed = FALSE

\* the client issues call i (Request / RequestOneway / Channel)
CallBegin(i, k) ==
    /\ kind[i] = "none" /\ kind' = [kind EXCEPT ![i] = k]
    /\ UNCHANGED <<runs, hret, cend, c2s, s2c, failed>>

\* the server's handler is entered with the request of call i: only for a call that was issued, and only once
HandlerStart(i) ==
    /\ kind[i] # "none" /\ runs[i] = 0
    /\ runs' = [runs EXCEPT ![i] = 1]
    /\ UNCHANGED <<kind, hret, cend, c2s, s2c, failed>>

\* the handler returns (code, msg, res) or panics
HandlerReturn(i, out) ==
    /\ runs[i] = 1 /\ hret[i] = NoOut
    /\ hret' = [hret EXCEPT ![i] = out]
    /\ UNCHANGED <<kind, runs, cend, c2s, s2c, failed>>

\* stream messages: each side sends in order, the other side receives a prefix, the end only after everything
Send(dir, i, n) ==
    /\ LET s == IF dir = "c2s" THEN c2s[i] ELSE s2c[i] IN
       /\ ~s.endSent /\ n = Len(s.sent) + 1
       /\ IF dir = "c2s" THEN c2s' = [c2s EXCEPT ![i].sent = Append(@, n)] /\ UNCHANGED s2c
          ELSE s2c' = [s2c EXCEPT ![i].sent = Append(@, n)] /\ UNCHANGED c2s
    /\ UNCHANGED <<kind, runs, hret, cend, failed>>

SendEnd(dir, i) ==
    /\ IF dir = "c2s" THEN c2s' = [c2s EXCEPT ![i].endSent = TRUE] /\ UNCHANGED s2c
       ELSE s2c' = [s2c EXCEPT ![i].endSent = TRUE] /\ UNCHANGED c2s
    /\ UNCHANGED <<kind, runs, hret, cend, failed>>

Recv(dir, i, n) ==
    /\ LET s == IF dir = "c2s" THEN c2s[i] ELSE s2c[i] IN
       /\ ~s.endSeen /\ s.got < Len(s.sent) /\ s.sent[s.got + 1] = n
       /\ IF dir = "c2s" THEN c2s' = [c2s EXCEPT ![i].got = @ + 1] /\ UNCHANGED s2c
          ELSE s2c' = [s2c EXCEPT ![i].got = @ + 1] /\ UNCHANGED c2s
    /\ UNCHANGED <<kind, runs, hret, cend, failed>>

\* the receiver sees the end of the stream: the sender ended it (SendEnd, or the response / handler return for s2c,
\* or the client giving up the call for c2s) and nothing sent is missing; or the transport failed
RecvEnd(dir, i, senderDone) ==
    /\ LET s == IF dir = "c2s" THEN c2s[i] ELSE s2c[i] IN
       \/ failed
       \/ ((s.endSent \/ senderDone) /\ s.got = Len(s.sent))
    /\ IF dir = "c2s" THEN c2s' = [c2s EXCEPT ![i].endSeen = TRUE] /\ UNCHANGED s2c
       ELSE s2c' = [s2c EXCEPT ![i].endSeen = TRUE] /\ UNCHANGED c2s
    /\ UNCHANGED <<kind, runs, hret, cend, failed>>

\* the client's call returns (code, msg, res)
\*   oneway: returns once the request is written, nothing of the handler is visible
\*   otherwise: OK only with the result of ITS handler run that returned OK; a non-OK code and message are those of
\*   its handler run; a panic, a malformed reply or a lost connection is some non-OK status; a call made with a
\*   deadline (kind "deadline") may also end with the caller's own timeout, whatever its handler does
CallEnd(i, out) ==
    /\ kind[i] # "none" /\ cend[i] = NoOut
    /\ IF kind[i] = "oneway" THEN (out.code = "ok" => out.res = 0) /\ (out.code # "ok" => failed)
       ELSE IF out.code = "ok" THEN hret[i].code = "ok" /\ hret[i].res = out.res
       ELSE \/ failed
            \/ (kind[i] = "deadline" /\ out.code = "timeout")      \* the caller's own deadline expired first
            \/ hret[i] = PanicOut
            \/ (hret[i].code \notin {"none", "panic"} /\ hret[i].code = out.code /\ hret[i].msg = out.msg)
    /\ cend' = [cend EXCEPT ![i] = out]
    /\ UNCHANGED <<kind, runs, hret, c2s, s2c, failed>>

Fail == failed' = TRUE /\ UNCHANGED <<kind, runs, hret, cend, c2s, s2c>>

\* ------------------------------------------------------------- properties
HandlerAtMostOnce == \A i \in Calls : runs[i] <= 1
OkOnlyIfServerSentOk == \A i \in Calls : (kind[i] \notin {"none", "oneway"} /\ cend[i].code = "ok") =>
                            (hret[i].code = "ok" /\ hret[i].res = cend[i].res)
StreamPrefix == \A i \in Calls : c2s[i].got <= Len(c2s[i].sent) /\ s2c[i].got <= Len(s2c[i].sent)
\* at the end of a run without faults every issued call ran its handler exactly once; a call whose caller's own deadline
\* expired may have been given up before its request was written, and then has no handler run
AllHandled == failed \/ \A i \in Calls : kind[i] # "none" =>
                  (runs[i] = 1 \/ (kind[i] = "deadline" /\ cend[i].code = "timeout" /\ runs[i] = 0))
=============================================================================
