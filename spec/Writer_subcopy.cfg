\* C01: Copy / Merge into a nested message (message field, or message element of a list) opened after its parent already
\* holds fields, with and without tags shared between the nested message and the source
SPECIFICATION Spec
CONSTANTS
  Tags <- TagsSubCopy
  Descs <- ScalarsOne
  Srcs <- SrcsOne
  MaxOps = 4
  MaxNodes = 4
  Misuse = FALSE
  Macros <- MacrosSubCopy
INVARIANTS NoGarbage OpEqDen RoundTrip
CONSTRAINT EmitDone
