SPECIFICATION Spec
CONSTANTS
  Objs = {1, 2, 3}
  Procs = {"g1", "g2", "g3"}
  Attrs = {"data", "err", "nest"}
  Faulty = FALSE
INVARIANTS TypeOK FreshWhenFree HolderIffHeld
PROPERTIES RecycledIsFresh NoStealing
