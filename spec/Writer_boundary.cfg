\* C01/C08: directed boundary behaviours: payloads around 0xfc/0xfd/65535/65536, 255/256 elements,
\* 48/49 table slots, tags 255/256, nesting beyond 14 stack entries
SPECIFICATION Spec
CONSTANTS
  Tags <- TagsTiny
  Descs <- PayloadDescs
  Srcs <- NoMacros
  MaxOps = 4
  MaxNodes = 2
  Misuse = FALSE
  Macros <- MacrosBoundary
INVARIANTS NoGarbage OpEqDen RoundTrip BigIffBoundary
CONSTRAINT EmitDone
