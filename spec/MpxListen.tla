----------------------------- MODULE MpxListen -----------------------------
(***************************************************************************)
(* Close listeners of an mpx connection (C20, second half).                *)
(*                                                                         *)
(* Transcribed from mpx/conn.go: OnClosed, addClosed, removeClosed, close, *)
(* notifyClosed.  One action per atomic operation on {closed flag,         *)
(* listener map, the listener's once-flag}; the verif build has a gate at  *)
(* each of them.                                                           *)
(*                                                                         *)
(* Actors:  R   a goroutine registering a listener with OnClosed           *)
(*          UN  the same caller unsubscribing later (only after success)   *)
(*          CL  the connection closer: flag, ..., notify (Range, call),    *)
(*              Clear                                                      *)
(***************************************************************************)
EXTENDS Integers, Sequences, TLC, Json

CONSTANTS Unsub      \* BOOLEAN: the registrant unsubscribes after a successful registration

VARIABLES flag,      \* connection closed flag
          inMap,     \* the wrapped listener is in the listener map
          once,      \* the wrapper's once-flag (called.CompareAndSwap)
          calls,     \* how often the user's function ran
          sawFlag,   \* the closed flag as seen from inside the listener
          rpc, result, upc, cpc, sched

vars == <<flag, inMap, once, calls, sawFlag, rpc, result, upc, cpc, sched>>

Init == /\ flag = FALSE /\ inMap = FALSE /\ once = FALSE /\ calls = 0 /\ sawFlag = TRUE
        /\ rpc = "check1" /\ result = "none" /\ upc = "wait" /\ cpc = "begin" /\ sched = <<>>

Log(a, g) == sched' = Append(sched, <<a, g>>)

\* ---- registrant: OnClosed(fn) = addClosed(wrapper) ...
RCheck1 ==
    /\ rpc = "check1" /\ Log("R", "lc.check1")
    /\ rpc' = IF flag THEN "cas" ELSE "set"
    /\ UNCHANGED <<flag, inMap, once, calls, sawFlag, result, upc, cpc>>
RSet ==
    /\ rpc = "set" /\ Log("R", "lc.set")
    /\ inMap' = TRUE /\ rpc' = "check2"
    /\ UNCHANGED <<flag, once, calls, sawFlag, result, upc, cpc>>
RCheck2 ==
    /\ rpc = "check2" /\ Log("R", "lc.check2")
    /\ IF flag THEN rpc' = "del" /\ UNCHANGED result
       ELSE rpc' = "done" /\ result' = "ok"
    /\ UNCHANGED <<flag, inMap, once, calls, sawFlag, upc, cpc>>
RDel ==
    /\ rpc = "del" /\ Log("R", "lc.del")
    /\ inMap' = FALSE /\ rpc' = "cas"
    /\ UNCHANGED <<flag, once, calls, sawFlag, result, upc, cpc>>
\* registration failed: the once-flag decides whether the listener already ran (then the caller is told "registered")
RCas ==
    /\ rpc = "cas" /\ Log("R", "lc.cas")
    /\ IF once THEN result' = "ran" /\ UNCHANGED once         \* it ran: report success (no id to unsubscribe), it will never run again
       ELSE result' = "closed" /\ once' = TRUE                \* it never ran and never will
    /\ rpc' = "done"
    /\ UNCHANGED <<flag, inMap, calls, sawFlag, upc, cpc>>

\* ---- unsubscribe (only meaningful after a successful registration that handed out an id)
UUnsub ==
    /\ Unsub /\ upc = "wait" /\ rpc = "done" /\ result = "ok" /\ Log("UN", "lc.unsub")
    /\ inMap' = FALSE /\ upc' = "done"
    /\ UNCHANGED <<flag, once, calls, sawFlag, rpc, result, cpc>>

\* ---- closer
CBegin ==
    /\ cpc = "begin" /\ Log("CL", "cl.begin") /\ cpc' = "setflag"
    /\ UNCHANGED <<flag, inMap, once, calls, sawFlag, rpc, result, upc>>
CSetFlag ==
    /\ cpc = "setflag" /\ Log("CL", "cl.setflag") /\ flag' = TRUE /\ cpc' = "notify"
    /\ UNCHANGED <<inMap, once, calls, sawFlag, rpc, result, upc>>
\* Range visits the listener if it is in the map at that moment
CNotify ==
    /\ cpc = "notify" /\ Log("CL", "cl.notify")
    /\ cpc' = IF inMap THEN "call" ELSE "clear"
    /\ UNCHANGED <<flag, inMap, once, calls, sawFlag, rpc, result, upc>>
CCall ==
    /\ cpc = "call" /\ Log("CL", "cl.call")
    /\ IF once THEN UNCHANGED <<once, calls, sawFlag>>
       ELSE once' = TRUE /\ calls' = calls + 1 /\ sawFlag' = (sawFlag /\ flag)
    /\ cpc' = "clear"
    /\ UNCHANGED <<flag, inMap, rpc, result, upc>>
CClear ==
    /\ cpc = "clear" /\ Log("CL", "cl.clear") /\ inMap' = FALSE /\ cpc' = "done"
    /\ UNCHANGED <<flag, once, calls, sawFlag, rpc, result, upc>>

Next == RCheck1 \/ RSet \/ RCheck2 \/ RDel \/ RCas \/ UUnsub \/ CBegin \/ CSetFlag \/ CNotify \/ CCall \/ CClear
Spec == Init /\ [][Next]_vars
Quiescent == ~ENABLED Next
View == <<flag, inMap, once, calls, sawFlag, rpc, result, upc, cpc>>

\* ------------------------------------------------------------- properties (C20)
UnsubBeforeClose == \E i \in DOMAIN sched : sched[i] = <<"UN", "lc.unsub">> /\ \A j \in 1..i : sched[j] # <<"CL", "cl.begin">>
ExactlyOnceIffOk ==
    Quiescent => /\ (result = "ok" /\ ~UnsubBeforeClose /\ upc # "done" => calls = 1)
                 /\ (result = "ran" => calls = 1)
                 /\ (result = "closed" => calls = 0)
                 /\ (UnsubBeforeClose => calls = 0)
AtMostOnce == calls <= 1
ClosedBeforeListener == sawFlag

Record == [sched |-> sched, result |-> result, calls |-> calls, unsub |-> Unsub]
Emit == Quiescent => PrintT(ToJson(Record))
=============================================================================
