SPECIFICATION SSpec
CONSTANTS
  Mode = "sem"
  MaxDefs = 0
  Family = "evolve"
  MaxFields = 2
INVARIANTS VerdictConsistent TagsDistinct
CONSTRAINT SEmit
