\* C01/C08 quick: all legal programs writing <= 3 nodes over the full boundary alphabet
SPECIFICATION Spec
CONSTANTS
  Tags <- TagsFull
  Descs <- ScalarsFull
  Srcs <- SrcsFull
  MaxOps = 8
  MaxNodes = 3
  Misuse = FALSE
  Macros <- NoMacros
INVARIANTS NoGarbage OpEqDen RoundTrip BigIffBoundary
PROPERTIES StickyError
CONSTRAINT EmitDone
