SPECIFICATION Spec
CONSTANTS
  MaxIn = 3
  MaxOut = 3
  Kinds = {"in", "out", "inout"}
  Outcomes = {"ok", "app", "panic"}
  EarlyEnd = FALSE
  WithDrop = FALSE
  WithFree = FALSE
INVARIANTS HandlerAfterCall OutcomeIsHandlers StreamPrefix EndAfterAll RpcInvariants
CONSTRAINT Emit
