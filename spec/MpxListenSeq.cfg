SPECIFICATION Spec
CONSTANTS
  Listeners = {"A", "B", "C", "D"}
  MaxOps = 6
INVARIANTS AtMostOnce OnlyRegistered
CONSTRAINT Emit
