---- MODULE MpxLifeMC ----
EXTENDS MpxLife
FramesA == { <<>>, <<"data">>, <<"close">>, <<"data", "close">>, <<"data", "data">>, <<"data", "data", "close">> }
====
