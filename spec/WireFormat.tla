--------------------------- MODULE WireFormat ---------------------------
(***************************************************************************)
(* The pinned wire layout of basecomplextech/spec as a function.           *)
(*                                                                         *)
(* Transcribed from internal/format/type.go, internal/encode/*,            *)
(* internal/decode/* and baselibrary/encoding/compactint/reverse.go at the *)
(* pinned commit.  Values are encoded BACKWARDS: the type byte is the LAST *)
(* byte of a value, sizes precede it as reverse compact varints, the       *)
(* payload precedes the sizes.                                             *)
(*                                                                         *)
(* TLC integers are 32 bit, therefore 64-bit integers are 8-byte big-endian*)
(* tuples ("mag") with a sign flag and floats are byte tuples.             *)
(***************************************************************************)
EXTENDS Integers, Sequences, FiniteSets, SequencesExt, Functions, TLC

\* ------------------------------------------------------------------ codes
TTrue == 1     TFalse == 2    TByte == 3
TInt16 == 10   TInt32 == 11   TInt64 == 12
TUint16 == 20  TUint32 == 21  TUint64 == 22
TBin64 == 30   TBin128 == 31  TBin256 == 32
TFloat32 == 40 TFloat64 == 41
TBytes == 50   TString == 60
TList == 70    TBigList == 71
TMessage == 80 TBigMessage == 81
TStruct == 90

AllTypeCodes == {1,2,3,10,11,12,20,21,22,30,31,32,40,41,50,60,70,71,80,81,90}

IntCode(k) == CASE k = "int16" -> TInt16 [] k = "int32" -> TInt32 [] k = "int64" -> TInt64
UintCode(k) == CASE k = "uint16" -> TUint16 [] k = "uint32" -> TUint32 [] k = "uint64" -> TUint64
BinCode(k) == CASE k = "bin64" -> TBin64 [] k = "bin128" -> TBin128 [] k = "bin256" -> TBin256
BinLen(k) == CASE k = "bin64" -> 8 [] k = "bin128" -> 16 [] k = "bin256" -> 32

IntKinds == {"int16", "int32", "int64"}
UintKinds == {"uint16", "uint32", "uint64"}
BinKinds == {"bin64", "bin128", "bin256"}

\* ------------------------------------------------------- byte arithmetic
Zero8 == <<0,0,0,0,0,0,0,0>>

\* 8-byte big-endian tuple of a natural below 2^31
B8(n) == <<0,0,0,0, (n \div 16777216) % 256, (n \div 65536) % 256, (n \div 256) % 256, n % 256>>
BE2(n) == <<(n \div 256) % 256, n % 256>>
BE4(n) == <<(n \div 16777216) % 256, (n \div 65536) % 256, (n \div 256) % 256, n % 256>>

\* value of the low bytes when it fits a TLC integer (callers guarantee m < 2^31)
N8(m) == m[5] * 16777216 + m[6] * 65536 + m[7] * 256 + m[8]

Dbl8(m) == [i \in 1..8 |-> ((2 * m[i]) % 256) + (IF i < 8 /\ m[i+1] >= 128 THEN 1 ELSE 0)]
Half8(m) == [i \in 1..8 |-> m[i] \div 2 + (IF i > 1 /\ m[i-1] % 2 = 1 THEN 128 ELSE 0)]
\* lowest (rightmost) index whose byte is not x, 0 if none
LastNot(m, x) == LET S == {i \in 1..8 : m[i] # x} IN IF S = {} THEN 0 ELSE CHOOSE i \in S : \A j \in S : j <= i
Dec8(m) == LET j == LastNot(m, 0) IN      \* m > 0
             [i \in 1..8 |-> IF i < j THEN m[i] ELSE IF i = j THEN m[i] - 1 ELSE 255]
Inc8(m) == LET j == LastNot(m, 255) IN    \* m < 2^64 - 1
             [i \in 1..8 |-> IF i < j THEN m[i] ELSE IF i = j THEN m[i] + 1 ELSE 0]
SetLow8(m) == [m EXCEPT ![8] = m[8] + 1]   \* m even

\* lexicographic comparison of equal-length byte tuples
Lt8(a, b) == \E i \in 1..8 : a[i] < b[i] /\ \A j \in 1..(i-1) : a[j] = b[j]
Le8(a, b) == a = b \/ Lt8(a, b)

\* zig-zag:  x >= 0 -> 2x ;  x < 0 -> 2(|x|-1)+1      (PutReverseInt32/64)
ZigZag(neg, mag) == IF neg THEN SetLow8(Dbl8(Dec8(mag))) ELSE Dbl8(mag)
UnZigZag(u) == IF u[8] % 2 = 0 THEN [neg |-> FALSE, mag |-> Half8(u)]
               ELSE [neg |-> TRUE, mag |-> Inc8(Half8(u))]

\* ------------------------------------------------ reverse compact varint
\* PutReverseUint64: 1 byte for <= 0xfc; 2 bytes + 0xfd; 4 bytes + 0xfe; 8 bytes + 0xff
Varint8(m) ==
    IF (\A i \in 1..7 : m[i] = 0) /\ m[8] <= 252 THEN <<m[8]>>
    ELSE IF \A i \in 1..6 : m[i] = 0 THEN <<m[7], m[8], 253>>
    ELSE IF \A i \in 1..4 : m[i] = 0 THEN <<m[5], m[6], m[7], m[8], 254>>
    ELSE m \o <<255>>

VarintN(n) == IF n <= 252 THEN <<n>>
              ELSE IF n <= 65535 THEN <<n \div 256, n % 256, 253>>
              ELSE BE4(n) \o <<254>>

Bad == [ok |-> FALSE, n |-> 0]

\* Decodes the varint that ends b.  wide = 64-bit decoder (accepts the 0xff class).
\* A truncated varint is an error (the intended semantics; see DESIGN C13).
RevVarint(b, wide) ==
    LET L == Len(b) IN
    IF L = 0 THEN Bad
    ELSE LET f == b[L] IN
      IF f <= 252 THEN [ok |-> TRUE, n |-> 1, mag |-> <<0,0,0,0,0,0,0,f>>]
      ELSE IF f = 253 THEN (IF L < 3 THEN Bad ELSE [ok |-> TRUE, n |-> 3, mag |-> <<0,0,0,0,0,0,b[L-2],b[L-1]>>])
      ELSE IF f = 254 THEN (IF L < 5 THEN Bad ELSE [ok |-> TRUE, n |-> 5, mag |-> <<0,0,0,0,b[L-4],b[L-3],b[L-2],b[L-1]>>])
      ELSE IF ~wide \/ L < 9 THEN Bad
      ELSE [ok |-> TRUE, n |-> 9, mag |-> SubSeq(b, L-8, L-1)]

\* size varint: must also fit the model's integers
RevSize(b) ==
    LET r == RevVarint(b, FALSE) IN
    IF ~r.ok THEN Bad
    ELSE IF r.mag[5] >= 1 THEN Bad         \* 2^24 and more: beyond every input of the model (and keeps sums inside TLC integers)
    ELSE [ok |-> TRUE, n |-> r.n, v |-> N8(r.mag)]

\* ---------------------------------------------------------------- values
\* constructors (value records; see module comment)
VBool(b)        == [k |-> "bool", b |-> b]
VByte(n)        == [k |-> "byte", n |-> n]
VInt(k, neg, m) == [k |-> k, neg |-> neg, mag |-> m]
VUint(k, m)     == [k |-> k, mag |-> m]
VF32(bytes)     == [k |-> "float32", bits |-> bytes]
VF64(bytes)     == [k |-> "float64", bits |-> bytes]
VBin(k, bytes)  == [k |-> k, bytes |-> bytes]
VBytes(d)       == [k |-> "bytes", data |-> d]
VString(d)      == [k |-> "string", data |-> d]
VList(es)       == [k |-> "list", elems |-> es]
VMsg(fs)        == [k |-> "msg", fields |-> fs]       \* fs: sequence of <<tag, value>> in WRITE order
VStruct(fs)     == [k |-> "struct", fields |-> fs]    \* fs: sequence of values
VNone           == [k |-> "none"]                     \* empty field/element (zero bytes)

SmallInt(k, n)  == VInt(k, n < 0, B8(IF n < 0 THEN -n ELSE n))
SmallUint(k, n) == VUint(k, B8(n))

\* payload generator: n bytes, position dependent, never 0 for strings
Fill(n) == [i \in 1..n |-> 1 + (i % 250)]

\* ---------------------------------------------------------------- encode
Flatten(ss) == FlattenSeq(ss)

\* TLC keeps [i \in S |-> e] lazy and re-evaluates e on every application; Force makes it a concrete
\* tuple so that recursive encoders/decoders evaluate every child exactly once.
Force(s) == SubSeq(s, 1, Len(s))

\* cumulative end offsets of a sequence of byte strings
Ends(encs) == LET n == Len(encs)
                  e[i \in 0..n] == IF i = 0 THEN 0 ELSE e[i-1] + Len(encs[i])
              IN [i \in 1..n |-> e[i]]

ListIsBig(n, ends) == n > 255 \/ (n > 0 /\ ends[n] > 65535)       \* format.IsBigList: only the LAST offset
MsgIsBig(entries) == \E i \in DOMAIN entries : entries[i].tag > 255 \/ entries[i].end > 65535

\* table order = writer's insertion sort: ascending tag, later duplicates first
TagOrder(a, b) == a.tag < b.tag \/ (a.tag = b.tag /\ a.idx > b.idx)

ListTableBytes(ends, big) == Flatten([i \in DOMAIN ends |-> IF big THEN BE4(ends[i]) ELSE BE2(ends[i])])
MsgTableBytes(sorted, big) ==
    Flatten([i \in DOMAIN sorted |->
        IF big THEN BE2(sorted[i].tag) \o BE4(sorted[i].end)
        ELSE <<sorted[i].tag % 256>> \o BE2(sorted[i].end % 65536)])

EncodeListOf(encs) ==
    LET ends == Ends(encs)
        big == ListIsBig(Len(encs), ends)
        data == Flatten(encs)
        table == ListTableBytes(ends, big)
    IN data \o table \o VarintN(Len(data)) \o VarintN(Len(table)) \o <<IF big THEN TBigList ELSE TList>>

EncodeMsgOf(tags, encs) ==
    LET ends == Ends(encs)
        entries == [i \in DOMAIN encs |-> [tag |-> tags[i], end |-> ends[i], idx |-> i]]
        sorted == SortSeq(entries, TagOrder)
        big == MsgIsBig(entries)
        data == Flatten(encs)
        table == MsgTableBytes(sorted, big)
    IN data \o table \o VarintN(Len(data)) \o VarintN(Len(table)) \o <<IF big THEN TBigMessage ELSE TMessage>>

EncodeStructOf(encs) == LET data == Flatten(encs) IN data \o VarintN(Len(data)) \o <<TStruct>>

EncodeScalar(v) ==
    CASE v.k = "bool"    -> <<IF v.b THEN TTrue ELSE TFalse>>
      [] v.k = "byte"    -> <<v.n, TByte>>
      [] v.k \in IntKinds  -> Varint8(ZigZag(v.neg, v.mag)) \o <<IntCode(v.k)>>
      [] v.k \in UintKinds -> Varint8(v.mag) \o <<UintCode(v.k)>>
      [] v.k = "float32" -> v.bits \o <<TFloat32>>
      [] v.k = "float64" -> v.bits \o <<TFloat64>>
      [] v.k \in BinKinds -> v.bytes \o <<BinCode(v.k)>>
      [] v.k = "bytes"   -> v.data \o VarintN(Len(v.data)) \o <<TBytes>>
      [] v.k = "string"  -> v.data \o <<0>> \o VarintN(Len(v.data)) \o <<TString>>
      [] v.k = "none"    -> <<>>

IsScalar(v) == v.k \notin {"list", "msg", "struct"}

RECURSIVE Encode(_)
Encode(v) ==
    CASE v.k = "list"   -> LET encs == Force([i \in DOMAIN v.elems |-> Encode(v.elems[i])]) IN EncodeListOf(encs)
      [] v.k = "msg"    -> LET encs == Force([i \in DOMAIN v.fields |-> Encode(v.fields[i][2])])
                               tags == Force([i \in DOMAIN v.fields |-> v.fields[i][1]])
                           IN EncodeMsgOf(tags, encs)
      [] v.k = "struct" -> LET encs == Force([i \in DOMAIN v.fields |-> Encode(v.fields[i])]) IN EncodeStructOf(encs)
      [] OTHER          -> EncodeScalar(v)

\* canonical tree: message fields sorted by tag (what a reader can observe)
RECURSIVE Canon(_)
Canon(v) ==
    CASE v.k = "list"   -> VList([i \in DOMAIN v.elems |-> Canon(v.elems[i])])
      [] v.k = "msg"    -> VMsg(LET es == [i \in DOMAIN v.fields |-> [tag |-> v.fields[i][1], idx |-> i]]
                                    so == SortSeq(es, TagOrder)
                                IN [i \in DOMAIN so |-> <<so[i].tag, Canon(v.fields[so[i].idx][2])>>])
      [] v.k = "struct" -> VStruct([i \in DOMAIN v.fields |-> Canon(v.fields[i])])
      [] OTHER          -> v

DistinctTags(fs) == \A i, j \in DOMAIN fs : i # j => fs[i][1] # fs[j][1]

\* ---------------------------------------------------------------- decode
\* All decoders are total on arbitrary byte sequences and return [ok, n, ...];
\* the value is the SUFFIX of b of length n.
TypeOf(b) == IF Len(b) = 0 THEN 0 ELSE b[Len(b)]

TakeLast(b, n) == SubSeq(b, Len(b) - n + 1, Len(b))      \* last n bytes
DropLast(b, n) == SubSeq(b, 1, Len(b) - n)              \* all but the last n bytes

\* Probe = DecodeTypeSize (intended semantics): type and total size without looking inside
Probe(b) ==
    LET L == Len(b)
        t == TypeOf(b)
        body == DropLast(b, 1)
        fixed(m) == IF L - 1 < m THEN Bad ELSE [ok |-> TRUE, t |-> t, n |-> 1 + m]
    IN
    IF L = 0 THEN [ok |-> TRUE, t |-> 0, n |-> 0]
    ELSE CASE t \in {TTrue, TFalse} -> [ok |-> TRUE, t |-> t, n |-> 1]
      [] t = TByte -> fixed(1)
      [] t \in {TInt16, TInt32, TUint16, TUint32} ->
            LET r == RevVarint(body, FALSE) IN IF r.ok THEN [ok |-> TRUE, t |-> t, n |-> 1 + r.n] ELSE Bad
      [] t \in {TInt64, TUint64} ->
            LET r == RevVarint(body, TRUE) IN IF r.ok THEN [ok |-> TRUE, t |-> t, n |-> 1 + r.n] ELSE Bad
      [] t = TFloat32 -> fixed(4)
      [] t \in {TFloat64, TBin64} -> fixed(8)
      [] t = TBin128 -> fixed(16)
      [] t = TBin256 -> fixed(32)
      [] t \in {TBytes, TString} ->
            LET r == RevSize(body) IN
            IF ~r.ok THEN Bad
            ELSE LET n == 1 + r.n + r.v + (IF t = TString THEN 1 ELSE 0) IN
                 IF n > L THEN Bad ELSE [ok |-> TRUE, t |-> t, n |-> n]
      [] t \in {TList, TBigList, TMessage, TBigMessage} ->
            LET r1 == RevSize(body) IN
            IF ~r1.ok THEN Bad
            ELSE LET r2 == RevSize(DropLast(body, r1.n)) IN
                 IF ~r2.ok THEN Bad
                 ELSE LET n == 1 + r1.n + r2.n + r1.v + r2.v IN
                      IF n > L THEN Bad ELSE [ok |-> TRUE, t |-> t, n |-> n]
      [] t = TStruct ->
            LET r == RevSize(body) IN
            IF ~r.ok THEN Bad
            ELSE LET n == 1 + r.n + r.v IN IF n > L THEN Bad ELSE [ok |-> TRUE, t |-> t, n |-> n]
      [] OTHER -> Bad

\* header of a list/message: [ok, n, big, data (bytes), table (bytes), dataSize]
Header(b, small, big, entry) ==
    LET t == TypeOf(b)
        p == Probe(b) IN
    IF Len(b) = 0 \/ t \notin {small, big} \/ ~p.ok THEN Bad
    ELSE LET body == DropLast(b, 1)
             r1 == RevSize(body)
             r2 == RevSize(DropLast(body, r1.n))
             isBig == t = big
             es == entry[IF isBig THEN 2 ELSE 1]
             v == TakeLast(b, p.n)
             table == SubSeq(v, r2.v + 1, r2.v + r1.v)
             data == SubSeq(v, 1, r2.v)
         IN IF r1.v % es # 0 THEN Bad
            ELSE [ok |-> TRUE, n |-> p.n, big |-> isBig, data |-> data, table |-> table, count |-> r1.v \div es]

ListHeader(b) == Header(b, TList, TBigList, <<2, 4>>)
MsgHeader(b)  == Header(b, TMessage, TBigMessage, <<3, 6>>)

U16(t, o) == t[o] * 256 + t[o+1]
U32ok(t, o) == t[o] < 128
U32(t, o) == t[o] * 16777216 + t[o+1] * 65536 + t[o+2] * 256 + t[o+3]

\* i-th list end offset (1-based), -1 when it does not fit the model's integers
ListEnd(h, i) == IF h.big THEN (IF U32ok(h.table, 4*(i-1)+1) THEN U32(h.table, 4*(i-1)+1) ELSE -1)
                 ELSE U16(h.table, 2*(i-1)+1)
MsgTag(h, i) == IF h.big THEN U16(h.table, 6*(i-1)+1) ELSE h.table[3*(i-1)+1]
MsgEnd(h, i) == IF h.big THEN (IF U32ok(h.table, 6*(i-1)+3) THEN U32(h.table, 6*(i-1)+3) ELSE -1)
                ELSE U16(h.table, 3*(i-1)+2)

\* binary search of the serialized table, exactly as a reader does it (offset_small/offset_big)
RECURSIVE BSearch(_, _, _, _)
BSearch(h, tag, left, right) ==
    IF left > right THEN 0
    ELSE LET mid == (left + right) \div 2
             cur == MsgTag(h, mid) IN
         IF cur < tag THEN BSearch(h, tag, mid + 1, right)
         ELSE IF cur > tag THEN BSearch(h, tag, left, mid - 1)
         ELSE mid

\* Lookup: bytes of field `tag` of message b (the prefix data[1..end]); <<>> when absent / out of range
LookupRaw(b, tag) ==
    LET h == MsgHeader(b) IN
    IF ~h.ok THEN <<>>
    ELSE LET i == BSearch(h, tag, 1, h.count) IN
         IF i = 0 THEN <<>>
         ELSE LET e == MsgEnd(h, i) IN IF e < 0 \/ e > Len(h.data) THEN <<>> ELSE SubSeq(h.data, 1, e)

HasField(b, tag) ==
    LET h == MsgHeader(b) IN
    h.ok /\ LET i == BSearch(h, tag, 1, h.count) IN
            i # 0 /\ MsgEnd(h, i) >= 0 /\ MsgEnd(h, i) <= Len(h.data)

ScalarOfBytes(b, p) ==
    \* p = Probe(b), ok, scalar type.  v = the value's own bytes
    LET v == TakeLast(b, p.n)
        body == DropLast(v, 1)
        t == p.t IN
    CASE t = TTrue -> VBool(TRUE)
      [] t = TFalse -> VBool(FALSE)
      [] t = TByte -> VByte(body[1])
      [] t \in {TInt16, TInt32, TInt64} ->
            LET z == UnZigZag(RevVarint(body, t = TInt64).mag) IN
            VInt(CASE t = TInt16 -> "int16" [] t = TInt32 -> "int32" [] OTHER -> "int64", z.neg, z.mag)
      [] t \in {TUint16, TUint32, TUint64} ->
            VUint(CASE t = TUint16 -> "uint16" [] t = TUint32 -> "uint32" [] OTHER -> "uint64",
                  RevVarint(body, t = TUint64).mag)
      [] t = TFloat32 -> VF32(body)
      [] t = TFloat64 -> VF64(body)
      [] t = TBin64 -> VBin("bin64", body)
      [] t = TBin128 -> VBin("bin128", body)
      [] t = TBin256 -> VBin("bin256", body)
      [] t = TBytes -> LET r == RevSize(body) IN VBytes(SubSeq(v, 1, r.v))
      [] t = TString -> LET r == RevSize(body) IN VString(SubSeq(v, 1, r.v))

\* stored integers must be in the range of their declared width (writer never produces others)
InRangeInt(k, neg, m) ==
    CASE k = "int16" -> IF neg THEN Le8(m, B8(32768)) ELSE Le8(m, B8(32767))
      [] k = "int32" -> IF neg THEN Le8(m, <<0,0,0,0,128,0,0,0>>) ELSE Le8(m, <<0,0,0,0,127,255,255,255>>)
      [] OTHER -> IF neg THEN Le8(m, <<128,0,0,0,0,0,0,0>>) ELSE Le8(m, <<127,255,255,255,255,255,255,255>>)
InRangeUint(k, m) ==
    CASE k = "uint16" -> Le8(m, B8(65535))
      [] k = "uint32" -> Le8(m, <<0,0,0,0,255,255,255,255>>)
      [] OTHER -> TRUE

\* Parse: recursive strict decoder; returns [ok, n, v] with v in canonical form (fields in table order)
RECURSIVE Parse(_)
Parse(b) ==
    LET p == Probe(b) IN
    IF Len(b) = 0 \/ ~p.ok THEN Bad
    ELSE IF p.t \in {TList, TBigList} THEN
        LET h == ListHeader(b) IN
        IF ~h.ok THEN Bad
        ELSE LET start(i) == IF i = 1 THEN 0 ELSE ListEnd(h, i-1)
                 okAt(i) == /\ ListEnd(h, i) >= 0 /\ ListEnd(h, i) <= Len(h.data)
                            /\ start(i) >= 0 /\ start(i) <= ListEnd(h, i)
             IN IF \E i \in 1..h.count : ~okAt(i) THEN Bad
                ELSE LET sub == Force([i \in 1..h.count |->
                                   LET eb == SubSeq(h.data, start(i) + 1, ListEnd(h, i)) IN
                                   IF Len(eb) = 0 THEN [ok |-> TRUE, n |-> 0, v |-> VNone] ELSE Parse(eb)])
                     IN IF \E i \in 1..h.count : ~sub[i].ok THEN Bad
                        ELSE [ok |-> TRUE, n |-> p.n, v |-> VList([i \in 1..h.count |-> sub[i].v])]
    ELSE IF p.t \in {TMessage, TBigMessage} THEN
        LET h == MsgHeader(b) IN
        IF ~h.ok THEN Bad
        ELSE IF \E i \in 1..h.count : MsgEnd(h, i) < 0 \/ MsgEnd(h, i) > Len(h.data) THEN Bad
        ELSE LET sub == Force([i \in 1..h.count |->
                            LET fb == SubSeq(h.data, 1, MsgEnd(h, i)) IN
                            IF Len(fb) = 0 THEN [ok |-> TRUE, n |-> 0, v |-> VNone] ELSE Parse(fb)])
             IN IF \E i \in 1..h.count : ~sub[i].ok THEN Bad
                ELSE [ok |-> TRUE, n |-> p.n, v |-> VMsg([i \in 1..h.count |-> <<MsgTag(h, i), sub[i].v>>])]
    ELSE IF p.t = TStruct THEN
        \* a struct's fields are delimited by its schema; the generic parser only delimits the struct
        [ok |-> TRUE, n |-> p.n, v |-> [k |-> "structraw", data |-> SubSeq(TakeLast(b, p.n), 1, p.n - 1 - RevSize(DropLast(b, 1)).n)]]
    ELSE LET sv == ScalarOfBytes(b, p) IN
         IF sv.k \in IntKinds /\ ~InRangeInt(sv.k, sv.neg, sv.mag) THEN Bad
         ELSE IF sv.k \in UintKinds /\ ~InRangeUint(sv.k, sv.mag) THEN Bad
         ELSE [ok |-> TRUE, n |-> p.n, v |-> sv]

\* struct fields, decoded back to front given their number (what generated DecodeX does)
RECURSIVE ParseStructFields(_, _)
ParseStructFields(data, n) ==
    IF n = 0 THEN (IF Len(data) = 0 THEN [ok |-> TRUE, vs |-> <<>>] ELSE [ok |-> FALSE, vs |-> <<>>])
    ELSE LET r == Parse(data) IN
         IF ~r.ok THEN [ok |-> FALSE, vs |-> <<>>]
         ELSE LET rest == ParseStructFields(DropLast(data, r.n), n - 1) IN
              IF ~rest.ok THEN rest ELSE [ok |-> TRUE, vs |-> Append(rest.vs, r.v)]

\* canonical form with structs reduced to their raw data (what the generic parser sees)
RECURSIVE CanonRaw(_)
CanonRaw(v) ==
    CASE v.k = "list"   -> VList([i \in DOMAIN v.elems |-> CanonRaw(v.elems[i])])
      [] v.k = "msg"    -> VMsg(LET es == [i \in DOMAIN v.fields |-> [tag |-> v.fields[i][1], idx |-> i]]
                                    so == SortSeq(es, TagOrder)
                                IN [i \in DOMAIN so |-> <<so[i].tag, CanonRaw(v.fields[so[i].idx][2])>>])
      [] v.k = "struct" -> [k |-> "structraw", data |-> Flatten([i \in DOMAIN v.fields |-> Encode(v.fields[i])])]
      [] OTHER          -> v

\* ------------------------------------------------------------ properties
RoundTripOf(v) == LET e == Encode(v) IN Parse(e) = [ok |-> TRUE, n |-> Len(e), v |-> CanonRaw(v)]

\* the statement of C13 on the specification's own three decoders
AgreeOf(x) == LET r == Parse(x) IN
              r.ok => /\ Probe(x).ok /\ Probe(x).n = r.n /\ Probe(x).t = TypeOf(x)
                      /\ Parse(TakeLast(x, r.n)) = r
LocalOf(p, x) == LET r == Parse(x) IN r.ok => Parse(p \o x) = r

=============================================================================
