SPECIFICATION Spec
CONSTANTS
  MaxMsgs = 3
  ArmFirst = FALSE
INVARIANTS NoLostWakeup InOrder
CONSTRAINT Emit
