SPECIFICATION Spec
CONSTANTS
  MaxMsgs = 3
  ArmFirst = FALSE
  StartWaiting = FALSE
INVARIANTS NoLostWakeup InOrder
CONSTRAINT Emit
