SPECIFICATION SSpec
CONSTANTS
  Mode = "sem"
  MaxDefs = 0
  Family = "multi"
  MaxFields = 3
INVARIANTS VerdictConsistent TagsDistinct
CONSTRAINT SEmit
