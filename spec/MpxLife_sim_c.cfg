SPECIFICATION Spec
CONSTANTS
  Frames <- FramesA
  WithCloser = TRUE
  UserEnds = "none"


CONSTRAINT Emit
