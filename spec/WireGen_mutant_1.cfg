SPECIFICATION Spec
CONSTANTS
  Mode = "mutant"
  Level = 1
INVARIANTS RoundTripInv CodecInverse WidenNarrow AgreeInv LocalInv TagIndependence
CONSTRAINT Emit
