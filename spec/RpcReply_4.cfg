SPECIFICATION Spec
CONSTANTS
  MaxFrames = 4
  SkipBad = FALSE
INVARIANTS OkOnlyIfClean DataIsPrefix
CONSTRAINT Emit
