SPECIFICATION SSpec
CONSTANTS
  Mode = "sem"
  MaxDefs = 0
  Family = "lexical"
  MaxFields = 1
INVARIANTS VerdictConsistent TagsDistinct
CONSTRAINT SEmit
