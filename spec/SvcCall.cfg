SPECIFICATION Spec
CONSTANTS
  MaxIn = 1
  MaxOut = 1
  Kinds = {"unary", "oneway", "sub", "in", "out", "inout"}
  Outcomes = {"ok", "app", "panic"}
  EarlyEnd = FALSE
  WithDrop = FALSE
  WithFree = FALSE
INVARIANTS HandlerAfterCall OutcomeIsHandlers StreamPrefix EndAfterAll CanFinish RpcInvariants
PROPERTIES RefinesRpc
CONSTRAINT Emit
