SPECIFICATION Spec
CONSTANTS
  MaxSteps = 6
  Lenient = FALSE
INVARIANTS OnlyNegotiated DeadMeansAnswered ShortIsHarmless
CONSTRAINT Emit
