SPECIFICATION Spec
CONSTANTS
  Mode = "value"
  Level = 2
INVARIANTS RoundTripInv CodecInverse WidenNarrow AgreeInv LocalInv TagIndependence
CONSTRAINT Emit
