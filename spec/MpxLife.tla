------------------------------ MODULE MpxLife ------------------------------
(***************************************************************************)
(* Life cycle of ONE mpx channel at the granularity of its reference count *)
(* (C06, parts of C18 and C20).  Payload free.                             *)
(*                                                                         *)
(* Transcribed from mpx/channel.go (acquire, tryAcquire, release, free,    *)
(* Free, closeUser, receive), mpx/conn_send.go (sendHandle),               *)
(* mpx/conn_receive.go (receiveData/Window/Close), mpx/conn.go (close,     *)
(* closeChannels).  One action per atomic operation on shared state        *)
(* {refs, state pointer, closed flag, channel map, write queue}; these are *)
(* exactly the points where the verif build has a gate, so that a          *)
(* behaviour of this module is a schedule the replay controller can        *)
(* execute step by step on the real code.                                  *)
(*                                                                         *)
(* Actors:  U   the user (or the handler goroutine) calling Free           *)
(*          SL  the connection's send loop handling the channel's close    *)
(*              frame (map delete, conn-side free)                         *)
(*          RL  the connection's receive loop dispatching frames that the  *)
(*              peer sent for this channel (data/window, close)            *)
(*          CL  the connection closer (closeChannels)                      *)
(***************************************************************************)
EXTENDS Integers, Sequences, FiniteSets, TLC, Json

CONSTANTS Frames,        \* set of sequences of peer frames in flight for the channel, each over {"data", "close"}
          WithCloser,    \* BOOLEAN: the connection is closed concurrently
          UserEnds       \* "free" : user calls Free;  "none": user keeps the channel (only peer close / conn close end it);
                         \* "sendclose": user calls SendAndClose on the opened channel, then Free

VARIABLES refs, st, closed, inMap, wqClose, chansClosed, pool, panics, stale,
          frames, upc, spc, rpc, cpc, rhold, sched, delivered, frames0

vars == <<refs, st, closed, inMap, wqClose, chansClosed, pool, panics, stale, frames, upc, spc, rpc, cpc, rhold, sched, delivered, frames0>>

Init ==
    /\ refs = 2 /\ st = "live" /\ closed = FALSE /\ inMap = TRUE /\ wqClose = 0 /\ chansClosed = FALSE
    /\ pool = 0 /\ panics = {} /\ stale = 0 /\ frames \in Frames
    /\ upc = CASE UserEnds = "free" -> "acq" [] UserEnds = "sendclose" -> "sc.acq" [] OTHER -> "done"
    /\ spc = "idle" /\ rpc = "idle" /\ cpc = IF WithCloser THEN "begin" ELSE "done"
    /\ rhold = FALSE /\ sched = <<>> /\ delivered = 0 /\ frames0 = frames

\* a step of actor a through gate g
Log(a, g) == sched' = Append(sched, <<a, g>>) /\ UNCHANGED frames0

\* release(): refs.Add(-1); on <= 0 the state pointer is swapped out and the state goes back to the pool
Release(who) ==
    /\ refs' = refs - 1
    /\ IF refs - 1 > 0 THEN UNCHANGED <<st, pool, panics>>
       ELSE IF st = "nil" THEN panics' = panics \cup {<<who, "release of released channel">>} /\ UNCHANGED <<st, pool>>
       ELSE st' = "nil" /\ pool' = pool + 1 /\ UNCHANGED panics

\* s.close() through a captured state pointer: closing a state that was already recycled is a use after release
CloseState ==
    /\ closed' = TRUE
    /\ stale' = IF st = "nil" THEN stale + 1 ELSE stale

Dead(a) == \E p \in panics : p[1] = a       \* an actor that panicked

\* ------------------------------------------------------------------ user: Free() = closeUser(); release()
UAcq ==  \* closeUser: acquire
    /\ upc = "acq" /\ Log("U", "acq")
    /\ refs' = refs + 1
    /\ IF refs + 1 = 1 \/ st = "nil"
       THEN panics' = panics \cup {<<"U", "acquire of freed channel">>} /\ upc' = "done"
       ELSE UNCHANGED panics /\ upc' = "ldclosed"
    /\ UNCHANGED <<st, closed, inMap, wqClose, chansClosed, pool, stale, frames, spc, rpc, cpc, rhold, delivered>>

ULdClosed ==
    /\ upc = "ldclosed" /\ Log("U", "ldclosed")
    /\ upc' = IF closed THEN "rel1" ELSE "enq"
    /\ UNCHANGED <<refs, st, closed, inMap, wqClose, chansClosed, pool, panics, stale, frames, spc, rpc, cpc, rhold, delivered>>

UEnq ==  \* sendClose: the close frame enters the write queue; conn.send fails once the queue is closed
    /\ upc = "enq" /\ Log("U", "enq")
    /\ wqClose' = IF cpc \in {"begin"} \/ ~WithCloser THEN wqClose + 1 ELSE wqClose
    /\ upc' = "setclosed"
    /\ UNCHANGED <<refs, st, closed, inMap, chansClosed, pool, panics, stale, frames, spc, rpc, cpc, rhold, delivered>>

USetClosed ==
    /\ upc = "setclosed" /\ Log("U", "setclosed")
    /\ CloseState /\ upc' = "rel1"
    /\ UNCHANGED <<refs, st, inMap, wqClose, chansClosed, pool, panics, frames, spc, rpc, cpc, rhold, delivered>>

URel1 ==  \* closeUser's deferred release
    /\ upc = "rel1" /\ Log("U", "rel")
    /\ Release("U") /\ upc' = "rel2"
    /\ UNCHANGED <<closed, inMap, wqClose, chansClosed, stale, frames, spc, rpc, cpc, rhold, delivered>>

URel2 ==  \* the user's own reference
    /\ upc = "rel2" /\ Log("U", "rel")
    /\ Release("U") /\ upc' = "done"
    /\ UNCHANGED <<closed, inMap, wqClose, chansClosed, stale, frames, spc, rpc, cpc, rhold, delivered>>

\* ------------------------------------------------------------------ user: SendAndClose(data) on an opened channel, then Free()
\* acquire; load closed (closed: return); s.close(); the close frame with the payload enters the write queue; release
USCAcq ==
    /\ upc = "sc.acq" /\ Log("U", "acq")
    /\ refs' = refs + 1
    /\ IF refs + 1 = 1 \/ st = "nil"
       THEN panics' = panics \cup {<<"U", "acquire of freed channel">>} /\ upc' = "done"
       ELSE UNCHANGED panics /\ upc' = "sc.ldclosed"
    /\ UNCHANGED <<st, closed, inMap, wqClose, chansClosed, pool, stale, frames, spc, rpc, cpc, rhold, delivered>>

USCLdClosed ==
    /\ upc = "sc.ldclosed" /\ Log("U", "ldclosed")
    /\ upc' = IF closed THEN "sc.rel" ELSE "sc.setclosed"
    /\ UNCHANGED <<refs, st, closed, inMap, wqClose, chansClosed, pool, panics, stale, frames, spc, rpc, cpc, rhold, delivered>>

USCSetClosed ==
    /\ upc = "sc.setclosed" /\ Log("U", "setclosed")
    /\ CloseState /\ upc' = "sc.enq"
    /\ UNCHANGED <<refs, st, inMap, wqClose, chansClosed, pool, panics, frames, spc, rpc, cpc, rhold, delivered>>

USCEnq ==
    /\ upc = "sc.enq" /\ Log("U", "enq")
    /\ wqClose' = IF cpc \in {"begin"} \/ ~WithCloser THEN wqClose + 1 ELSE wqClose
    /\ upc' = "sc.rel"
    /\ UNCHANGED <<refs, st, closed, inMap, chansClosed, pool, panics, stale, frames, spc, rpc, cpc, rhold, delivered>>

USCRel ==  \* SendAndClose returns; the user goes on to Free the channel
    /\ upc = "sc.rel" /\ Log("U", "rel")
    /\ Release("U") /\ upc' = "acq"
    /\ UNCHANGED <<closed, inMap, wqClose, chansClosed, stale, frames, spc, rpc, cpc, rhold, delivered>>

\* ------------------------------------------------------------------ conn-side free(): state.Load, s.close(), release
\* (shared by SL, RL and CL; the caller supplies its own program counter update)
FreeLoad(a) ==
    /\ Log(a, "free.load")
    /\ IF st = "nil" THEN panics' = panics \cup {<<a, "free of freed channel">>} ELSE UNCHANGED panics
    /\ UNCHANGED <<refs, st, closed, inMap, wqClose, chansClosed, pool, stale, frames, rhold, delivered>>

\* ------------------------------------------------------------------ send loop: close frame dequeued
SDel ==  \* channels.Delete(id)
    /\ spc = "idle" /\ wqClose > 0 /\ Log("SL", "sl.del")
    /\ wqClose' = wqClose - 1
    /\ inMap' = FALSE
    /\ spc' = IF inMap THEN "load" ELSE "idle"
    /\ UNCHANGED <<refs, st, closed, chansClosed, pool, panics, stale, frames, upc, rpc, cpc, rhold, delivered>>

SLoad == spc = "load" /\ FreeLoad("SL") /\ spc' = (IF st = "nil" THEN "dead" ELSE "setclosed") /\ UNCHANGED <<upc, rpc, cpc>>
SSetClosed ==
    /\ spc = "setclosed" /\ Log("SL", "setclosed") /\ CloseState /\ spc' = "rel"
    /\ UNCHANGED <<refs, st, inMap, wqClose, chansClosed, pool, panics, frames, upc, rpc, cpc, rhold, delivered>>
SRel ==
    /\ spc = "rel" /\ Log("SL", "rel") /\ Release("SL") /\ spc' = "idle"
    /\ UNCHANGED <<closed, inMap, wqClose, chansClosed, stale, frames, upc, rpc, cpc, rhold, delivered>>

\* ------------------------------------------------------------------ receive loop
\* data / window frame: Get, receive() = tryAcquire, closed?, deliver, release
RGet ==
    /\ rpc = "idle" /\ frames # <<>> /\ Head(frames) = "data" /\ Log("RL", "rl.get")
    /\ frames' = Tail(frames)
    /\ rpc' = IF inMap THEN "tryacq" ELSE "idle"          \* unknown channel: frame dropped
    /\ UNCHANGED <<refs, st, closed, inMap, wqClose, chansClosed, pool, panics, stale, upc, spc, cpc, rhold, delivered>>

RTryAcq ==
    /\ rpc \in {"tryacq", "c.tryacq"} /\ Log("RL", "tryacq")
    /\ IF refs <= 0
       THEN /\ UNCHANGED <<refs, rhold>>                    \* released meanwhile: the frame is dropped
            /\ rpc' = IF rpc = "tryacq" THEN "idle" ELSE "c.load"
       ELSE /\ refs' = refs + 1 /\ rhold' = TRUE
            /\ rpc' = IF rpc = "tryacq" THEN "ldclosed" ELSE "c.ldclosed"
    /\ UNCHANGED <<st, closed, inMap, wqClose, chansClosed, pool, panics, stale, frames, upc, spc, cpc, delivered>>

RLdClosed ==
    /\ rpc = "ldclosed" /\ Log("RL", "ldclosed")
    /\ rpc' = IF closed THEN "rel" ELSE "deliver"                   \* frames for an ended channel are dropped silently
    /\ UNCHANGED <<refs, st, closed, inMap, wqClose, chansClosed, pool, panics, stale, frames, upc, spc, cpc, rhold, delivered>>

\* the frame is written to the receive queue; the channel may have been closed since the check: the write to the closed
\* queue is then refused and the frame dropped, nothing else happens
RDeliver ==
    /\ rpc = "deliver" /\ Log("RL", "deliver")
    /\ delivered' = IF closed THEN delivered ELSE delivered + 1
    /\ rpc' = "rel"
    /\ UNCHANGED <<refs, st, closed, inMap, wqClose, chansClosed, pool, panics, stale, frames, upc, spc, cpc, rhold>>

RRel ==
    /\ rpc = "rel" /\ Log("RL", "rel") /\ Release("RL") /\ rhold' = FALSE /\ rpc' = "idle"
    /\ UNCHANGED <<closed, inMap, wqClose, chansClosed, stale, frames, upc, spc, cpc, delivered>>

\* close frame: Delete, receive() = tryAcquire, closed?, receiveClose -> s.close(), release; then free()
RDel ==
    /\ rpc = "idle" /\ frames # <<>> /\ Head(frames) = "close" /\ Log("RL", "rl.del")
    /\ frames' = Tail(frames)
    /\ inMap' = FALSE
    /\ rpc' = IF inMap THEN "c.tryacq" ELSE "idle"
    /\ UNCHANGED <<refs, st, closed, wqClose, chansClosed, pool, panics, stale, upc, spc, cpc, rhold, delivered>>

RCLdClosed ==
    /\ rpc = "c.ldclosed" /\ Log("RL", "ldclosed")
    /\ rpc' = IF closed THEN "c.rel" ELSE "c.deliver"
    /\ UNCHANGED <<refs, st, closed, inMap, wqClose, chansClosed, pool, panics, stale, frames, upc, spc, cpc, rhold, delivered>>

\* receiveClose looks at the closed flag once more before it closes the channel
RCDeliver ==
    /\ rpc = "c.deliver" /\ Log("RL", "deliver") /\ rpc' = (IF closed THEN "c.rel" ELSE "c.setclosed")
    /\ UNCHANGED <<refs, st, closed, inMap, wqClose, chansClosed, pool, panics, stale, frames, upc, spc, cpc, rhold, delivered>>

RCSetClosed ==
    /\ rpc = "c.setclosed" /\ Log("RL", "setclosed") /\ CloseState /\ rpc' = "c.rel"
    /\ UNCHANGED <<refs, st, inMap, wqClose, chansClosed, pool, panics, frames, upc, spc, cpc, rhold, delivered>>

RCRel ==
    /\ rpc = "c.rel" /\ Log("RL", "rel") /\ Release("RL") /\ rhold' = FALSE /\ rpc' = "c.load"
    /\ UNCHANGED <<closed, inMap, wqClose, chansClosed, stale, frames, upc, spc, cpc, delivered>>

RCLoad == rpc = "c.load" /\ FreeLoad("RL") /\ rpc' = (IF st = "nil" THEN "dead" ELSE "c.fsetclosed") /\ UNCHANGED <<upc, spc, cpc>>
RCFSetClosed ==
    /\ rpc = "c.fsetclosed" /\ Log("RL", "setclosed") /\ CloseState /\ rpc' = "c.frel"
    /\ UNCHANGED <<refs, st, inMap, wqClose, chansClosed, pool, panics, frames, upc, spc, cpc, rhold, delivered>>
RCFRel ==
    /\ rpc = "c.frel" /\ Log("RL", "rel") /\ Release("RL") /\ rpc' = "idle"
    /\ UNCHANGED <<closed, inMap, wqClose, chansClosed, stale, frames, upc, spc, cpc, rhold, delivered>>

\* ------------------------------------------------------------------ connection closer
\* close() runs in the connection's run goroutine as soon as ONE of the two loops has returned:
\*   via "rl": the receive loop saw the end of the stream (it is idle and no frame is left)
\*   via "sl": the send loop failed to write (it is idle, nothing queued); an idle receive loop with nothing
\*             buffered exits as well
\* new writes to the queue fail from here on; frames already queued are still handed to a running send loop
CBegin(via) ==
    /\ cpc = "begin" /\ Log("CL", IF via = "rl" THEN "cl.begin.rl" ELSE "cl.begin.sl")
    /\ IF via = "rl"
       THEN rpc = "idle" /\ frames = <<>> /\ rpc' = "exited" /\ UNCHANGED spc
       ELSE spc = "idle" /\ wqClose = 0 /\ spc' = "exited" /\ rpc' = (IF rpc = "idle" /\ frames = <<>> THEN "exited" ELSE rpc)
    /\ cpc' = "range"
    /\ UNCHANGED <<refs, st, closed, inMap, wqClose, chansClosed, pool, panics, stale, frames, upc, rhold, delivered>>

CRange ==  \* closeChannels: channelsClosed flag, then Range over the map
    /\ cpc = "range" /\ Log("CL", "cl.range")
    /\ chansClosed' = TRUE
    /\ cpc' = IF inMap THEN "del" ELSE "done"            \* Range visits the channel only if it is still in the map
    /\ UNCHANGED <<refs, st, closed, inMap, wqClose, pool, panics, stale, frames, upc, spc, rpc, rhold, delivered>>

CDel ==  \* whoever removes the channel from the map frees it (exactly one of SL, RL, CL)
    /\ cpc = "del" /\ Log("CL", "cl.del")
    /\ inMap' = FALSE
    /\ cpc' = IF inMap THEN "load" ELSE "done"
    /\ UNCHANGED <<refs, st, closed, wqClose, chansClosed, pool, panics, stale, frames, upc, spc, rpc, rhold, delivered>>

CLoad == cpc = "load" /\ FreeLoad("CL") /\ cpc' = (IF st = "nil" THEN "dead" ELSE "setclosed") /\ UNCHANGED <<upc, spc, rpc>>
CSetClosed ==
    /\ cpc = "setclosed" /\ Log("CL", "setclosed") /\ CloseState /\ cpc' = "rel"
    /\ UNCHANGED <<refs, st, inMap, wqClose, chansClosed, pool, panics, frames, upc, spc, rpc, rhold, delivered>>
CRel ==
    /\ cpc = "rel" /\ Log("CL", "rel") /\ Release("CL") /\ cpc' = "done"
    /\ UNCHANGED <<closed, inMap, wqClose, chansClosed, stale, frames, upc, spc, rpc, rhold, delivered>>

UStep == UAcq \/ ULdClosed \/ UEnq \/ USetClosed \/ URel1 \/ URel2 \/ USCAcq \/ USCLdClosed \/ USCSetClosed \/ USCEnq \/ USCRel
SStep == SDel \/ SLoad \/ SSetClosed \/ SRel
RStep == RGet \/ RTryAcq \/ RLdClosed \/ RDeliver \/ RRel \/ RDel \/ RCLdClosed \/ RCDeliver \/ RCSetClosed \/ RCRel \/ RCLoad \/ RCFSetClosed \/ RCFRel
CStep == CBegin("rl") \/ CBegin("sl") \/ CRange \/ CDel \/ CLoad \/ CSetClosed \/ CRel

Next == UStep \/ SStep \/ RStep \/ CStep

Spec == Init /\ [][Next]_vars

Quiescent == ~ENABLED Next

\* exhaustive checking ignores the recorded schedule (a history variable)
View == <<refs, st, closed, inMap, wqClose, chansClosed, pool, panics, stale, frames, upc, spc, rpc, cpc, rhold, delivered>>

\* ------------------------------------------------------------- properties
NoLibraryPanic == panics = {}
NoUserPanic == ~Dead("U")
NoUseAfterRelease == stale = 0
RefsNonNegative == refs >= 0
ReleasedOnce == pool <= 1
\* the state is recycled only after the user gave up its reference (otherwise the user's next call panics or
\* works on a recycled state)
NoPrematureRelease == st = "nil" => (UserEnds \in {"free", "sendclose"} /\ upc = "done")
\* when everything has run, a channel that ended is closed
EndedClean == Quiescent /\ (UserEnds \in {"free", "sendclose"} \/ WithCloser) /\ panics = {} => closed

Record == [sched |-> sched, panics |-> {p[2] : p \in panics}, frames |-> frames0, frames_left |-> Len(frames), delivered |-> delivered,
           premature |-> (st = "nil" /\ ~(UserEnds \in {"free", "sendclose"} /\ upc = "done")),
           refs |-> refs, released |-> pool, closed |-> closed, user |-> UserEnds, closer |-> WithCloser]
Emit == Quiescent => PrintT(ToJson(Record))
=============================================================================
