------------------------------ MODULE MpxServer ------------------------------
(***************************************************************************)
(* One server-side connection of mpx as seen by a (possibly hostile) peer  *)
(* (C11, and the handler half of C20).                                     *)
(*                                                                         *)
(* Transcribed from mpx/conn_handshake.go (handshakeAsServer),             *)
(* mpx/conn_receive.go (receiveMessage, receiveOpen/Close/Data/Window/     *)
(* Batch), mpx/conn.go (close, closeChannels), mpx/channel_handler.go.     *)
(*                                                                         *)
(* The peer's steps are the inputs; the server's reaction to each input is *)
(* deterministic once it is quiescent, so every behaviour is a script with *)
(* a prediction after each step: is the connection still open, what did    *)
(* the server write, how often was the handler started per opened channel, *)
(* which handler contexts are cancelled.                                   *)
(***************************************************************************)
EXTENDS Integers, Sequences, FiniteSets, TLC, Json

CONSTANTS Ids,        \* channel ids the peer uses
          MaxSteps    \* bound on peer steps per script

VARIABLES hs,         \* "line" | "request" | "open" | "dead"
          wrote,      \* what the server has written so far: sequence over {"line", "accept", "refuse"}
          live,       \* ids currently in the server's channel map
          runs,       \* id -> number of handler invocations so far
          ended,      \* id -> number of handler contexts cancelled so far
          script      \* the peer's steps with the prediction after each

vars == <<hs, wrote, live, runs, ended, script>>

Init == /\ hs = "line" /\ wrote = <<>>                \* the server buffers its protocol line until it answers the request
        /\ live = {} /\ runs = [i \in Ids |-> 0] /\ ended = [i \in Ids |-> 0] /\ script = <<>>

Budget == Len(script) < MaxSteps /\ hs # "dead"

Pred == [alive |-> hs' # "dead", wrote |-> wrote', runs |-> runs', ended |-> ended']
Step(op) == script' = Append(script, op @@ [pred |-> Pred])

\* the connection dies: every live channel ends (closeChannels cancels each handler context)
Die ==
    /\ hs' = "dead"
    /\ ended' = [i \in Ids |-> IF i \in live THEN ended[i] + 1 ELSE ended[i]]
    /\ live' = {}

\* ------------------------------------------------------------ handshake
\* kind: "good" | "other" (another protocol) | the protocol text wrapped in white space: "crlf", "spaces", "tab", "nbsp" -
\* the line is compared as it is, so all of these are refused
LineKinds == {"good", "other", "crlf", "spaces", "tab", "nbsp"}
Line(kind) ==
    /\ Budget /\ hs = "line"
    /\ IF kind = "good" THEN hs' = "request" /\ UNCHANGED <<live, ended>> ELSE Die
    /\ UNCHANGED <<wrote, runs>>
    /\ Step([op |-> "line", good |-> (kind = "good"), kind |-> kind])

\* kind: "ok" | "noversion" (refused) | "badcomp" (unknown compression: ignored)
\*       | "notrequest" (some other message first) | "disguised" (another message that also carries a connect request) | "garbage" (not a message) | "malformed" (see Hostile)
Request(kind) ==
    /\ Budget /\ hs = "request"
    /\ CASE kind \in {"ok", "badcomp"} -> hs' = "open" /\ wrote' = wrote \o <<"line", "accept">> /\ UNCHANGED <<live, ended>>
         [] kind = "noversion" -> wrote' = wrote \o <<"line", "refuse">> /\ Die      \* refused connections are closed
         [] OTHER -> UNCHANGED wrote /\ Die
    /\ UNCHANGED runs
    /\ Step([op |-> "request", kind |-> kind])

\* anything but the protocol line first: the server reads a line; bytes without newline keep it waiting, EOF kills
\* (scripts use a wrong line instead)

\* ------------------------------------------------------------ established
Open(i) ==
    /\ Budget /\ hs = "open"
    /\ IF i \in live
       THEN Die /\ UNCHANGED runs                                   \* open for an existing channel: connection error
       ELSE /\ live' = live \cup {i} /\ runs' = [runs EXCEPT ![i] = @ + 1] /\ UNCHANGED <<hs, ended>>
    /\ UNCHANGED wrote
    /\ Step([op |-> "open", id |-> i])

\* open+close in one batch: the handler still runs exactly once, on a channel that has already ended
OpenCloseBatch(i) ==
    /\ Budget /\ hs = "open"
    /\ IF i \in live
       THEN Die /\ UNCHANGED runs
       ELSE /\ runs' = [runs EXCEPT ![i] = @ + 1] /\ ended' = [ended EXCEPT ![i] = @ + 1] /\ UNCHANGED <<hs, live>>
    /\ UNCHANGED wrote
    /\ Step([op |-> "openclose", id |-> i])

Close(i) ==
    /\ Budget /\ hs = "open"
    /\ IF i \in live
       THEN live' = live \ {i} /\ ended' = [ended EXCEPT ![i] = @ + 1]
       ELSE UNCHANGED <<live, ended>>                                  \* unknown channel: dropped silently
    /\ UNCHANGED <<hs, wrote, runs>>
    /\ Step([op |-> "close", id |-> i])

\* data / window frames never start or end anything, known channel or not
Traffic(kind, i) ==
    /\ Budget /\ hs = "open"
    /\ UNCHANGED <<hs, wrote, live, runs, ended>>
    /\ Step([op |-> kind, id |-> i])

\* "unknowncode" | "nestedbatch" | "garbage" (frame that is not a message) | "badmessage" (structurally invalid message)
\* | "truncated" (length larger than what follows, then end of stream) | "oversized" (64 MiB declared, then end of stream)
\* | "eof" | "handshakeagain" (a connect request after the handshake)
Hostile(kind) ==
    /\ Budget /\ hs = "open"
    /\ Die /\ UNCHANGED <<wrote, runs>>
    /\ Step([op |-> kind])

\* | "malformed" (one of a catalogue of structurally invalid values: a table entry whose end offset points anywhere from 0 to
\*   past the end of the value; the harness cycles through the catalogue)
HostileKinds == {"unknowncode", "nestedbatch", "garbage", "badmessage", "truncated", "oversized", "eof", "handshakeagain", "malformed"}

Next == \/ \E k \in LineKinds : Line(k)
        \/ \E k \in {"ok", "badcomp", "noversion", "notrequest", "disguised", "garbage", "malformed"} : Request(k)
        \/ \E i \in Ids : Open(i) \/ OpenCloseBatch(i) \/ Close(i) \/ Traffic("data", i) \/ Traffic("window", i)
        \/ \E k \in HostileKinds : Hostile(k)

Spec == Init /\ [][Next]_vars

\* ------------------------------------------------------------- properties
Opens(i) == Cardinality({k \in DOMAIN script : script[k].op \in {"open", "openclose"} /\ script[k].id = i
                                               /\ (k = 1 \/ script[k-1].pred.alive)})
\* handlers run only on connections whose handshake completed with a supported version
HandlerOnlyIfNegotiated == (\E i \in Ids : runs[i] > 0) => \E k \in DOMAIN wrote : wrote[k] = "accept"
\* every accepted open starts the handler exactly once (a duplicate open kills the connection instead)
HandlerExactlyOnce == \A i \in Ids : runs[i] <= Opens(i) /\ runs[i] >= Opens(i) - 1
\* a handler context is cancelled exactly when its channel has ended or the connection is gone
CtxCancelledIffEnded == \A i \in Ids : ended[i] = runs[i] - (IF i \in live THEN 1 ELSE 0)
DeadMeansNoLive == hs = "dead" => live = {}

Emit == (Len(script) = MaxSteps \/ hs = "dead") => PrintT(ToJson([script |-> script]))
=============================================================================
