SPECIFICATION Spec
CONSTANTS
  Frames <- FramesA
  WithCloser = TRUE
  UserEnds = "free"
INVARIANTS NoPrematureRelease NoLibraryPanic NoUseAfterRelease RefsNonNegative ReleasedOnce EndedClean
VIEW View
