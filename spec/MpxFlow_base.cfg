SPECIFICATION Spec
CONSTANTS
  W = 4
  Sizes = {1, 2, 3, 4, 5, 8}
  MaxMsgs = 4
  OpenFirst = TRUE
INVARIANTS Bound Conservation NoStuck AckPending
PROPERTIES Progress
