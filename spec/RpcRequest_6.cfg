SPECIFICATION Spec
CONSTANTS
  MaxFrames = 6
  StickyParse = FALSE
INVARIANTS HandlerOnlyForRequest ReadsOn
CONSTRAINT Emit
