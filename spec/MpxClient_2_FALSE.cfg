SPECIFICATION Spec
CONSTANTS
  Max = 2
  Auto = FALSE
CONSTRAINT Bound
INVARIANTS FlagsExclusive ConnectedUsable AtMostMax ClosedIsTerminal BackoffOK
PROPERTIES CloseTerminal AttemptSteps
