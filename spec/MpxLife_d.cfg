SPECIFICATION Spec
CONSTANTS
  Frames <- FramesA
  WithCloser = FALSE
  UserEnds = "sendclose"
INVARIANTS NoPrematureRelease NoLibraryPanic NoUseAfterRelease RefsNonNegative ReleasedOnce EndedClean
VIEW View
