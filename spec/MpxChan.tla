------------------------------ MODULE MpxChan ------------------------------
(***************************************************************************)
(* Delivery on mpx channels as seen through the public API (C03, C09, and  *)
(* the "other channels keep their guarantees" part of C06).                *)
(*                                                                         *)
(* For every channel c and direction d the sender's calls are bracketed by *)
(* Begin/End events; the moment a message becomes part of the channel's    *)
(* stream (it passes the per-channel send mutex and enters the write       *)
(* queue) is an internal Commit step between them.  The receiver's         *)
(* Receive returns the next committed message, or the end.                 *)
(*                                                                         *)
(* The same actions are used twice: MpxChanMC explores them exhaustively   *)
(* for a small instance; MpxChanTrace consumes API-level traces recorded   *)
(* from real client/server runs and lets TLC place the Commit steps.       *)
(***************************************************************************)
EXTENDS Integers, Sequences, FiniteSets, TLC

CONSTANTS Chans, Dirs

VARIABLES pend,      \* [c, d] -> set of message ids whose Send/SendAndClose has begun and not yet committed/returned
          pendClose, \* [c, d] -> set of message ids among pend that are closing calls (SendAndClose / Free)
          sent,      \* [c, d] -> sequence of committed message ids (0 = a close without payload is never listed)
          sclosed,   \* [c, d] -> the sender's close has been committed
          nrecv,     \* [c, d] -> number of messages the receiver has got
          rended,    \* [c, d] -> the receiver has seen the end
          selfEnd,   \* [c, d] -> the RECEIVER of direction d ended the channel itself (its Free / SendAndClose began)
          failed     \* the transport failed (fault injected or connection closed by the test)

cvars == <<pend, pendClose, sent, sclosed, nrecv, rended, selfEnd, failed>>

Keys == Chans \X Dirs
Other(d) == CHOOSE e \in Dirs : e # d

CInit ==
    /\ pend = [k \in Keys |-> {}] /\ pendClose = [k \in Keys |-> {}] /\ sent = [k \in Keys |-> <<>>]
    /\ sclosed = [k \in Keys |-> FALSE] /\ nrecv = [k \in Keys |-> 0] /\ rended = [k \in Keys |-> FALSE]
    /\ selfEnd = [k \in Keys |-> FALSE] /\ failed = FALSE

\* Send(m) / SendAndClose(m) called on channel c in direction d.  close = TRUE for SendAndClose and Free (m = 0: no payload)
Begin(c, d, m, close) ==
    /\ pend' = [pend EXCEPT ![<<c, d>>] = @ \cup {m}]
    /\ pendClose' = IF close THEN [pendClose EXCEPT ![<<c, d>>] = @ \cup {m}] ELSE pendClose
    \* the caller's side stops being a faithful receiver of the opposite direction once it ends the channel itself
    /\ selfEnd' = IF close THEN [selfEnd EXCEPT ![<<c, Other(d)>>] = TRUE] ELSE selfEnd
    /\ UNCHANGED <<sent, sclosed, nrecv, rended, failed>>

\* internal: the message becomes part of the stream (single-sender mutex order); nothing is committed after a close
Commit(c, d, m) ==
    /\ m \in pend[<<c, d>>] /\ ~sclosed[<<c, d>>]
    /\ pend' = [pend EXCEPT ![<<c, d>>] = @ \ {m}]
    /\ pendClose' = [pendClose EXCEPT ![<<c, d>>] = @ \ {m}]
    /\ sent' = IF m # 0 THEN [sent EXCEPT ![<<c, d>>] = Append(@, m)] ELSE sent
    /\ sclosed' = IF m \in pendClose[<<c, d>>] THEN [sclosed EXCEPT ![<<c, d>>] = TRUE] ELSE sclosed
    /\ UNCHANGED <<nrecv, rended, selfEnd, failed>>

Committed(c, d, m) == m \notin pend[<<c, d>>]

\* the call returned.  ok: the message was committed.  not ok: it was not (it never reaches the receiver)
End(c, d, m, ok) ==
    /\ IF ok THEN Committed(c, d, m) /\ UNCHANGED <<pend, pendClose>>
       ELSE /\ m \in pend[<<c, d>>]
            /\ pend' = [pend EXCEPT ![<<c, d>>] = @ \ {m}]
            /\ pendClose' = [pendClose EXCEPT ![<<c, d>>] = @ \ {m}]
    /\ UNCHANGED <<sent, sclosed, nrecv, rended, selfEnd, failed>>

\* Receive returned message m: it is the next committed one (same bytes, same order, once, this channel)
Recv(c, d, m) ==
    /\ ~rended[<<c, d>>]
    /\ nrecv[<<c, d>>] < Len(sent[<<c, d>>])
    /\ sent[<<c, d>>][nrecv[<<c, d>>] + 1] = m
    /\ nrecv' = [nrecv EXCEPT ![<<c, d>>] = @ + 1]
    /\ UNCHANGED <<pend, pendClose, sent, sclosed, rended, selfEnd, failed>>

\* Receive returned the end status: only after draining, unless the receiver ended the channel itself or the transport failed
RecvEnd(c, d) ==
    /\ \/ selfEnd[<<c, d>>]
       \/ failed
       \/ (sclosed[<<c, d>>] /\ nrecv[<<c, d>>] = Len(sent[<<c, d>>]))
    /\ rended' = [rended EXCEPT ![<<c, d>>] = TRUE]
    /\ UNCHANGED <<pend, pendClose, sent, sclosed, nrecv, selfEnd, failed>>

Fail ==
    /\ failed' = TRUE
    /\ UNCHANGED <<pend, pendClose, sent, sclosed, nrecv, rended, selfEnd>>

\* ------------------------------------------------------------- properties
\* what was received is a prefix of what was committed, per channel and direction
PrefixOrder == \A k \in Keys : nrecv[k] <= Len(sent[k])
\* the end is seen only after every committed message, unless the receiver ended the channel itself or the transport failed
DrainBeforeEnd == \A k \in Keys : (rended[k] /\ ~selfEnd[k] /\ ~failed) => (sclosed[k] /\ nrecv[k] = Len(sent[k]))
=============================================================================
