----------------------------- MODULE Writer -----------------------------
(***************************************************************************)
(* The writer of basecomplextech/spec as a state machine, one action per   *)
(* public call (internal/writer/writer.go, msg.go, list.go, value.go,      *)
(* stack*.go at the pinned commit).                                        *)
(*                                                                         *)
(* The machine is OPERATIONAL: it keeps the stack of open entries, the     *)
(* byte buffer and the two table stacks exactly like the code and appends  *)
(* tables when a container ends.  WireFormat!Encode is DENOTATIONAL: a     *)
(* function from the written tree to bytes.  OpEqDen states that the two   *)
(* agree; replaying the programs into the real writer and comparing the    *)
(* bytes binds both to the code (C01, C08, C12).                           *)
(*                                                                         *)
(* Every public call is total: where the code answers with an error the    *)
(* machine sets the sticky error.  Where the code PANICS (nil handle after *)
(* End, Free after a failure) the machine answers with an error, because   *)
(* that is what property C12 demands; the replay reports the difference.   *)
(***************************************************************************)
EXTENDS WireFormat

CONSTANTS
    Tags,         \* field tags used by programs
    Descs,        \* scalar descriptors (see Val)
    Srcs,         \* raw sources for Any/Copy: descriptors of previously built values
    MaxOps,       \* bound on the number of calls in a program
    MaxNodes,     \* bound on the number of written nodes (scalars + containers)
    Misuse,       \* TRUE: every call enabled everywhere;  FALSE: legal programs only
    Macros        \* set of macro ops enabled (boundary behaviours)

VARIABLES
    m,        \* the machine: [stack, buf, elems, fields, err, hasState]
    nmsg,     \* sequence of BOOLEAN: message handles created so far, TRUE = dead (End/Build was called on it)
    nlist,    \* sequence of BOOLEAN: list handles created so far, TRUE = dead (derived from a dead handle)
    hist,     \* the program so far: sequence of [op, ..., exp]
    nodes,    \* number of nodes written
    built,    \* bytes returned by the last successful ROOT build, or <<>>
    rootTree, \* ghost: the tree of the last successful root build
    done      \* program finished (root built or given up)

vars == <<m, nmsg, nlist, hist, nodes, built, rootTree, done>>

\* ------------------------------------------------------------ descriptors
\* Programs carry small descriptors; Val expands them (payloads are generated, not spelled out)
Val(d) ==
    CASE d.k = "bytes"  /\ "fill" \in DOMAIN d -> VBytes(Fill(d.fill))
      [] d.k = "string" /\ "fill" \in DOMAIN d -> VString(Fill(d.fill))
      [] OTHER -> d

VRaw(b) == [k |-> "raw", bytes |-> b]

RECURSIVE EncodeT(_)
\* Encode extended with raw nodes (Any / Copy)
EncodeT(v) ==
    CASE v.k = "raw"    -> v.bytes
      [] v.k = "list"   -> LET encs == Force([i \in DOMAIN v.elems |-> EncodeT(v.elems[i])]) IN EncodeListOf(encs)
      [] v.k = "msg"    -> LET encs == Force([i \in DOMAIN v.fields |-> EncodeT(v.fields[i][2])])
                               tags == Force([i \in DOMAIN v.fields |-> v.fields[i][1]])
                           IN EncodeMsgOf(tags, encs)
      [] OTHER          -> EncodeScalar(Val(v))

RECURSIVE CanonT(_)
CanonT(v) ==
    CASE v.k = "raw"    -> (IF Len(v.bytes) = 0 THEN VNone ELSE Parse(v.bytes).v)
      [] v.k = "list"   -> VList([i \in DOMAIN v.elems |-> CanonT(v.elems[i])])
      [] v.k = "msg"    -> VMsg(LET es == [i \in DOMAIN v.fields |-> [tag |-> v.fields[i][1], idx |-> i]]
                                    so == SortSeq(es, TagOrder)
                                IN [i \in DOMAIN so |-> <<so[i].tag, CanonT(v.fields[so[i].idx][2])>>])
      [] OTHER          -> v

\* descriptors expanded to values (payloads spelled out), for comparison with what Parse returns
RECURSIVE ExpandT(_)
ExpandT(v) ==
    CASE v.k = "list"   -> VList([i \in DOMAIN v.elems |-> ExpandT(v.elems[i])])
      [] v.k = "msg"    -> VMsg([i \in DOMAIN v.fields |-> <<v.fields[i][1], ExpandT(v.fields[i][2])>>])
      [] OTHER          -> Val(v)

RECURSIVE TreeDistinct(_)
TreeDistinct(v) ==
    CASE v.k = "list" -> \A i \in DOMAIN v.elems : TreeDistinct(v.elems[i])
      [] v.k = "msg"  -> DistinctTags(v.fields) /\ \A i \in DOMAIN v.fields : TreeDistinct(v.fields[i][2])
      [] OTHER        -> TRUE

\* ---------------------------------------------------------------- machine
Entry(t, start, ts, g) == [t |-> t, start |-> start, ts |-> ts, g |-> g]

Fresh == [stack |-> <<>>, buf |-> <<>>, elems |-> <<>>, fields |-> <<>>, err |-> "none", hasState |-> TRUE]

\* results of internal operations: [m, ok]   (ok = FALSE: the call returned an error)
R(mm, ok) == [m |-> mm, ok |-> ok]

\* fail / failf: sticky; the state object is released (writer.go fail -> freeState)
Fail(mm) == IF mm.err # "none" THEN mm
            ELSE [mm EXCEPT !.err = "failed", !.hasState = FALSE, !.stack = <<>>, !.elems = <<>>, !.fields = <<>>, !.buf = <<>>]

Top(mm) == mm.stack[Len(mm.stack)]
Pop(mm) == [mm EXCEPT !.stack = SubSeq(mm.stack, 1, Len(mm.stack) - 1)]
Push(mm, e) == [mm EXCEPT !.stack = Append(mm.stack, e)]

\* pushData: refuses a second pending datum
PushData(mm, start, g) ==
    IF Len(mm.stack) > 0 /\ Top(mm).t = "data" THEN R(Fail(mm), FALSE)
    ELSE R(Push(mm, Entry("data", start, Len(mm.buf), g)), TRUE)

\* Value().X(v): append the encoding, push a data entry
WriteBytes(mm, bytes, g) ==
    IF mm.err # "none" THEN R(mm, FALSE)
    ELSE LET start == Len(mm.buf)
             m1 == [mm EXCEPT !.buf = mm.buf \o bytes]
         IN PushData(m1, start, g)

\* element(): pop the datum, record its end offset in the enclosing list
Element(mm) ==
    IF mm.err # "none" THEN R(mm, FALSE)
    ELSE IF Len(mm.stack) = 0 \/ Top(mm).t # "data" THEN R(Fail(mm), FALSE)
    ELSE LET d == Top(mm)
             m1 == Pop(mm) IN
         IF Len(m1.stack) = 0 \/ Top(m1).t # "list" THEN R(Fail(mm), FALSE)
         ELSE LET l == Top(m1)
                  n == Len(m1.stack)
                  m2 == [m1 EXCEPT !.elems = Append(m1.elems, d.ts - l.start),
                                   !.stack[n].g = Append(l.g, d.g)]
              IN R(m2, TRUE)

\* sorted insertion of stack_msg.go: walk left while the left neighbour's tag is not smaller
RECURSIVE InsertSorted(_, _, _)
InsertSorted(table, lo, i) ==
    \* table[i] is the new entry; positions lo+1..i form this message's table
    IF i <= lo + 1 THEN table
    ELSE IF table[i-1].tag < table[i].tag THEN table
    ELSE InsertSorted([table EXCEPT ![i-1] = table[i], ![i] = table[i-1]], lo, i - 1)

\* field(tag): pop the datum, insert (tag, end offset) into the enclosing message's table
Field(mm, tag) ==
    IF mm.err # "none" THEN R(mm, FALSE)
    ELSE IF Len(mm.stack) = 0 \/ Top(mm).t # "data" THEN R(Fail(mm), FALSE)
    ELSE LET d == Top(mm)
             m1 == Pop(mm) IN
         IF Len(m1.stack) = 0 \/ Top(m1).t # "msg" THEN R(Fail(mm), FALSE)
         ELSE LET ms == Top(m1)
                  n == Len(m1.stack)
                  t1 == Append(m1.fields, [tag |-> tag, end |-> d.ts - ms.start])
                  m2 == [m1 EXCEPT !.fields = InsertSorted(t1, ms.ts, Len(t1)),
                                   !.stack[n].g = Append(ms.g, <<tag, d.g>>)]
              IN R(m2, TRUE)

BeginList(mm) == IF mm.err # "none" THEN mm ELSE Push(mm, Entry("list", Len(mm.buf), Len(mm.elems), <<>>))
BeginMessage(mm) == IF mm.err # "none" THEN mm ELSE Push(mm, Entry("msg", Len(mm.buf), Len(mm.fields), <<>>))
BeginElement(mm) ==
    IF mm.err # "none" THEN mm
    ELSE IF Len(mm.stack) = 0 \/ Top(mm).t # "list" THEN Fail(mm)
    ELSE Push(mm, Entry("elem", Len(mm.buf), 0, <<>>))
BeginField(mm, tag) ==
    IF mm.err # "none" THEN mm
    ELSE IF Len(mm.stack) = 0 \/ Top(mm).t # "msg" THEN Fail(mm)
    ELSE Push(mm, Entry("field", Len(mm.buf), tag, <<>>))

\* close(): first successful root end closes the writer (owned writer: state is kept until Free)
Close(mm) == IF mm.err # "none" THEN R(mm, FALSE) ELSE R([mm EXCEPT !.err = "closed"], TRUE)

\* end(): result record [m, ok, bytes, root, tree]
E(mm, ok, bytes, root, tree) == [m |-> mm, ok |-> ok, bytes |-> bytes, root |-> root, tree |-> tree]
EFail(mm) == E(Fail(mm), FALSE, <<>>, FALSE, VNone)

\* the container or datum on top is finished; its bytes become a pending datum
EndTop(mm) ==
    LET e == Top(mm) IN
    CASE e.t = "data" ->
            IF Len(mm.stack) > 1 THEN EFail(mm)
            ELSE E(Pop(mm), TRUE, SubSeq(mm.buf, e.start + 1, Len(mm.buf)), FALSE, e.g)
      [] e.t = "list" ->
            LET m1 == Pop(mm)
                body == Len(mm.buf) - e.start
                offs == SubSeq(mm.elems, e.ts + 1, Len(mm.elems))
                big == ListIsBig(Len(offs), offs)
                table == ListTableBytes(offs, big)
                tail == table \o VarintN(body) \o VarintN(Len(table)) \o <<IF big THEN TBigList ELSE TList>>
                m2 == [m1 EXCEPT !.buf = mm.buf \o tail, !.elems = SubSeq(mm.elems, 1, e.ts)]
                g == VList(e.g)
                p == PushData(m2, e.start, g)
            IN IF ~p.ok THEN E(p.m, FALSE, <<>>, FALSE, VNone)
               ELSE E(p.m, TRUE, SubSeq(m2.buf, e.start + 1, Len(m2.buf)), FALSE, g)
      [] e.t = "msg" ->
            LET m1 == Pop(mm)
                body == Len(mm.buf) - e.start
                tab == SubSeq(mm.fields, e.ts + 1, Len(mm.fields))
                big == MsgIsBig(tab)
                table == MsgTableBytes(tab, big)
                tail == table \o VarintN(body) \o VarintN(Len(table)) \o <<IF big THEN TBigMessage ELSE TMessage>>
                m2 == [m1 EXCEPT !.buf = mm.buf \o tail, !.fields = SubSeq(mm.fields, 1, e.ts)]
                g == VMsg(e.g)
                p == PushData(m2, e.start, g)
            IN IF ~p.ok THEN E(p.m, FALSE, <<>>, FALSE, VNone)
               ELSE E(p.m, TRUE, SubSeq(m2.buf, e.start + 1, Len(m2.buf)), FALSE, g)
      [] OTHER -> EFail(mm)

\* endElement / endField: the pending datum becomes an element / a field of the parent
EndElement(mm) ==
    IF Len(mm.stack) = 0 \/ Top(mm).t # "data" THEN EFail(mm)
    ELSE LET d == Top(mm)
             m1 == Pop(mm) IN
         IF Len(m1.stack) = 0 \/ Top(m1).t # "elem" THEN EFail(mm)
         ELSE LET el == Top(m1)
                  m2 == Pop(m1) IN
              IF Len(m2.stack) = 0 \/ Top(m2).t # "list" THEN EFail(mm)
              ELSE LET l == Top(m2)
                       n == Len(m2.stack)
                       m3 == [m2 EXCEPT !.elems = Append(m2.elems, d.ts - l.start),
                                        !.stack[n].g = Append(l.g, d.g)]
                   IN E(m3, TRUE, SubSeq(mm.buf, el.start + 1, d.ts), FALSE, d.g)

EndField(mm) ==
    IF Len(mm.stack) = 0 \/ Top(mm).t # "data" THEN EFail(mm)
    ELSE LET d == Top(mm)
             m1 == Pop(mm) IN
         IF Len(m1.stack) = 0 \/ Top(m1).t # "field" THEN EFail(mm)
         ELSE LET f == Top(m1)
                  m2 == Pop(m1) IN
              IF Len(m2.stack) = 0 \/ Top(m2).t # "msg" THEN EFail(mm)
              ELSE LET ms == Top(m2)
                       n == Len(m2.stack)
                       t1 == Append(m2.fields, [tag |-> f.ts, end |-> d.ts - ms.start])
                       m3 == [m2 EXCEPT !.fields = InsertSorted(t1, ms.ts, Len(t1)),
                                        !.stack[n].g = Append(ms.g, <<f.ts, d.g>>)]
                   IN E(m3, TRUE, SubSeq(mm.buf, f.start + 1, d.ts), FALSE, d.g)

End(mm) ==
    IF mm.err # "none" THEN E(mm, FALSE, <<>>, FALSE, VNone)
    ELSE IF Len(mm.stack) = 0 THEN EFail(mm)
    ELSE LET r == EndTop(mm) IN
         IF ~r.ok THEN r
         ELSE IF Len(r.m.stack) < 2 THEN
              \* root finished: close the writer
              E(Close(r.m).m, TRUE, r.bytes, TRUE, r.tree)
         ELSE LET second == r.m.stack[Len(r.m.stack) - 1] IN
              CASE second.t = "elem"  -> EndElement(r.m)
                [] second.t = "field" -> EndField(r.m)
                [] OTHER -> r

HasFieldM(mm, tag) ==
    /\ mm.err = "none" /\ Len(mm.stack) > 0 /\ Top(mm).t = "msg"
    /\ \E i \in (Top(mm).ts + 1)..Len(mm.fields) : mm.fields[i].tag = tag

ListLenM(mm) == IF mm.err = "none" /\ Len(mm.stack) > 0 /\ Top(mm).t = "list" THEN Len(mm.elems) - Top(mm).ts ELSE 0

\* fieldAny(tag, data)
FieldAny(mm, tag, bytes) ==
    LET w == WriteBytes(mm, bytes, VRaw(bytes)) IN
    IF ~w.ok THEN w ELSE Field(w.m, tag)

\* MessageWriter.Copy(src): fields of src in table order, skipping tags already written
RECURSIVE CopyFrom(_, _, _)
CopyFrom(mm, src, i) ==
    LET h == MsgHeader(src) IN
    IF ~h.ok \/ i > h.count THEN R(mm, TRUE)
    ELSE LET tag == MsgTag(h, i) IN
         IF HasFieldM(mm, tag) THEN CopyFrom(mm, src, i + 1)
         ELSE LET e == MsgEnd(h, i)
                  pre == IF e < 0 \/ e > Len(h.data) THEN <<>> ELSE SubSeq(h.data, 1, e)
                  p == Probe(pre)
                  val == IF Len(pre) = 0 \/ ~p.ok THEN <<>> ELSE TakeLast(pre, p.n)
                  r == FieldAny(mm, tag, val)
              IN IF ~r.ok THEN r ELSE CopyFrom(r.m, src, i + 1)

\* ------------------------------------------------------------- the program
ErrOf(mm) == mm.err
Exp(mm, ret) == [err |-> mm.err, ret |-> ret]

Step(op, r, ret) ==
    /\ m' = r
    /\ hist' = Append(hist, op @@ [exp |-> Exp(r, ret)])

RetOf(ok) == IF ok THEN "ok" ELSE "err"

InMsg == m.err = "none" /\ Len(m.stack) > 0 /\ Top(m).t = "msg"
InList == m.err = "none" /\ Len(m.stack) > 0 /\ Top(m).t = "list"
AtStart == m.err = "none" /\ Len(m.stack) = 0 /\ Len(hist) = 0

Budget == Len(hist) < MaxOps /\ ~done
NodeBudget == nodes < MaxNodes

LiveMsg == {h \in DOMAIN nmsg : ~nmsg[h]}
\* legal programs use the most recent live handle; misuse programs any handle, live or dead
MsgHandles == IF Misuse THEN DOMAIN nmsg ELSE IF LiveMsg = {} THEN {} ELSE {CHOOSE h \in LiveMsg : \A g \in LiveMsg : g <= h}
UsedTags == IF InMsg THEN {m.fields[i].tag : i \in (Top(m).ts + 1)..Len(m.fields)} ELSE {}
FreeTags == IF Misuse THEN Tags ELSE Tags \ UsedTags

\* a call through a dead handle (a message handle after End/Build, or any handle derived from a dead one):
\* the specification answers with an error and changes nothing
DeadCall(op) ==
    /\ hist' = Append(hist, op @@ [exp |-> [err |-> m.err, ret |-> "dead"]])
    /\ UNCHANGED <<m, nmsg, nlist, nodes, built, rootTree, done>>
\* ... except that a handle-returning call hands out another dead handle
DeadCallNew(op, kind) ==
    /\ hist' = Append(hist, op @@ [exp |-> [err |-> m.err, ret |-> "dead"]])
    /\ nmsg' = IF kind = "msg" THEN Append(nmsg, TRUE) ELSE nmsg
    /\ nlist' = IF kind = "list" THEN Append(nlist, TRUE) ELSE nlist
    /\ UNCHANGED <<m, nodes, built, rootTree, done>>

LiveList == {l \in DOMAIN nlist : ~nlist[l]}
ListHandles == IF Misuse THEN DOMAIN nlist ELSE IF LiveList = {} THEN {} ELSE {CHOOSE l \in LiveList : \A g \in LiveList : g <= l}

\* --- root calls on the Writer
RootMessage ==
    /\ Budget /\ NodeBudget /\ (Misuse \/ AtStart)
    /\ Step([op |-> "root_msg"], BeginMessage(m), "na")
    /\ nmsg' = Append(nmsg, FALSE)
    /\ nodes' = nodes + 1
    /\ UNCHANGED <<nlist, built, rootTree, done>>

RootList ==
    /\ Budget /\ NodeBudget /\ (Misuse \/ AtStart)
    /\ Step([op |-> "root_list"], BeginList(m), "na")
    /\ nlist' = Append(nlist, FALSE)
    /\ nodes' = nodes + 1
    /\ UNCHANGED <<nmsg, built, rootTree, done>>

RootValue(d) ==
    /\ Budget /\ NodeBudget /\ (Misuse \/ AtStart)
    /\ LET r == WriteBytes(m, EncodeScalar(Val(d)), d) IN Step([op |-> "root_value", val |-> d], r.m, RetOf(r.ok))
    /\ nodes' = nodes + 1
    /\ UNCHANGED <<nmsg, nlist, built, rootTree, done>>

RootAny(s) ==
    /\ Budget /\ NodeBudget /\ (Misuse \/ AtStart)
    /\ LET b == EncodeT(Val(s))
           r == WriteBytes(m, b, VRaw(b)) IN Step([op |-> "root_any", src |-> b], r.m, RetOf(r.ok))
    /\ nodes' = nodes + 1
    /\ UNCHANGED <<nmsg, nlist, built, rootTree, done>>

\* --- message handle calls
FieldScalar(h, tag, d) ==
    /\ Budget /\ NodeBudget /\ (Misuse \/ InMsg)
    /\ IF nmsg[h] THEN DeadCall([op |-> "field", h |-> h, tag |-> tag, val |-> d])
       ELSE /\ LET w == WriteBytes(m, EncodeScalar(Val(d)), d)
                   r == IF ~w.ok THEN w ELSE Field(w.m, tag)
               IN Step([op |-> "field", h |-> h, tag |-> tag, val |-> d], r.m, RetOf(r.ok))
            /\ nodes' = nodes + 1
            /\ UNCHANGED <<nmsg, nlist, built, rootTree, done>>

FieldAnyOp(h, tag, s) ==
    /\ Budget /\ NodeBudget /\ (Misuse \/ InMsg)
    /\ IF nmsg[h] THEN DeadCall([op |-> "field_any", h |-> h, tag |-> tag, src |-> EncodeT(Val(s))])
       ELSE /\ LET r == FieldAny(m, tag, EncodeT(Val(s)))
               IN Step([op |-> "field_any", h |-> h, tag |-> tag, src |-> EncodeT(Val(s))], r.m, RetOf(r.ok))
            /\ nodes' = nodes + 1
            /\ UNCHANGED <<nmsg, nlist, built, rootTree, done>>

FieldMessage(h, tag) ==
    /\ Budget /\ NodeBudget /\ (Misuse \/ InMsg)
    /\ IF nmsg[h] THEN DeadCallNew([op |-> "field_msg", h |-> h, tag |-> tag], "msg")
       ELSE /\ Step([op |-> "field_msg", h |-> h, tag |-> tag], BeginMessage(BeginField(m, tag)), "na")
            /\ nmsg' = Append(nmsg, FALSE)
            /\ nodes' = nodes + 1
            /\ UNCHANGED <<nlist, built, rootTree, done>>

FieldList(h, tag) ==
    /\ Budget /\ NodeBudget /\ (Misuse \/ InMsg)
    /\ IF nmsg[h] THEN DeadCallNew([op |-> "field_list", h |-> h, tag |-> tag], "list")
       ELSE /\ Step([op |-> "field_list", h |-> h, tag |-> tag], BeginList(BeginField(m, tag)), "na")
            /\ nlist' = Append(nlist, FALSE)
            /\ nodes' = nodes + 1
            /\ UNCHANGED <<nmsg, built, rootTree, done>>

CopyOp(h, s) ==
    /\ Budget /\ NodeBudget /\ (Misuse \/ InMsg)
    /\ IF nmsg[h] THEN DeadCall([op |-> "copy", h |-> h, src |-> EncodeT(Val(s))])
       ELSE /\ LET r == IF m.err # "none" THEN R(m, TRUE)   \* Copy on a failed writer: HasField is false, fieldAny returns the error
                        ELSE CopyFrom(m, EncodeT(Val(s)), 1)
                   ret == IF m.err # "none" THEN (IF MsgHeader(EncodeT(Val(s))).count = 0 THEN "ok" ELSE "err") ELSE RetOf(r.ok)
               IN Step([op |-> "copy", h |-> h, src |-> EncodeT(Val(s))], r.m, ret)
            /\ nodes' = nodes + 1
            /\ UNCHANGED <<nmsg, nlist, built, rootTree, done>>

HasFieldOp(h, tag) ==
    /\ Budget /\ Misuse
    /\ IF nmsg[h] THEN DeadCall([op |-> "has_field", h |-> h, tag |-> tag])
       ELSE /\ Step([op |-> "has_field", h |-> h, tag |-> tag, has |-> HasFieldM(m, tag)], m, "na")
            /\ UNCHANGED <<nmsg, nlist, nodes, built, rootTree, done>>

\* End / Build through a message handle kills that handle (msg.go: m.w = nil)
FinishVia(op, r) ==
    /\ m' = r.m
    /\ hist' = Append(hist, op @@ [exp |-> Exp(r.m, RetOf(r.ok)), bytes |-> r.bytes])
    /\ built' = IF r.ok /\ r.root THEN r.bytes ELSE built
    /\ rootTree' = IF r.ok /\ r.root THEN r.tree ELSE rootTree
    /\ done' = IF Misuse THEN done ELSE (r.ok /\ r.root)

MsgEnd_(h, build) ==
    /\ Budget /\ (Misuse \/ InMsg)
    /\ LET op == [op |-> IF build THEN "msg_build" ELSE "msg_end", h |-> h] IN
       IF nmsg[h] THEN DeadCall(op)
       ELSE /\ FinishVia(op, End(m))
            /\ nmsg' = [nmsg EXCEPT ![h] = TRUE]
            /\ UNCHANGED <<nlist, nodes>>

\* --- list handle calls (all list handles are equivalent: they act on the top of the stack)
ElemScalar(l, d) ==
    /\ Budget /\ NodeBudget /\ (Misuse \/ InList)
    /\ IF nlist[l] THEN DeadCall([op |-> "elem", l |-> l, val |-> d])
       ELSE /\ LET w == WriteBytes(m, EncodeScalar(Val(d)), d)
                   r == IF ~w.ok THEN w ELSE Element(w.m)
               IN Step([op |-> "elem", l |-> l, val |-> d], r.m, RetOf(r.ok))
            /\ nodes' = nodes + 1
            /\ UNCHANGED <<nmsg, nlist, built, rootTree, done>>

ElemAnyOp(l, s) ==
    /\ Budget /\ NodeBudget /\ (Misuse \/ InList)
    /\ IF nlist[l] THEN DeadCall([op |-> "elem_any", l |-> l, src |-> EncodeT(Val(s))])
       ELSE /\ LET b == EncodeT(Val(s))
                   w == WriteBytes(m, b, VRaw(b))
                   r == IF ~w.ok THEN w ELSE Element(w.m)
               IN Step([op |-> "elem_any", l |-> l, src |-> b], r.m, RetOf(r.ok))
            /\ nodes' = nodes + 1
            /\ UNCHANGED <<nmsg, nlist, built, rootTree, done>>

ElemMessage(l) ==
    /\ Budget /\ NodeBudget /\ (Misuse \/ InList)
    /\ IF nlist[l] THEN DeadCallNew([op |-> "elem_msg", l |-> l], "msg")
       ELSE /\ Step([op |-> "elem_msg", l |-> l], BeginMessage(BeginElement(m)), "na")
            /\ nmsg' = Append(nmsg, FALSE)
            /\ nodes' = nodes + 1
            /\ UNCHANGED <<nlist, built, rootTree, done>>

ElemList(l) ==
    /\ Budget /\ NodeBudget /\ (Misuse \/ InList)
    /\ IF nlist[l] THEN DeadCallNew([op |-> "elem_list", l |-> l], "list")
       ELSE /\ Step([op |-> "elem_list", l |-> l], BeginList(BeginElement(m)), "na")
            /\ nlist' = Append(nlist, FALSE)
            /\ nodes' = nodes + 1
            /\ UNCHANGED <<nmsg, built, rootTree, done>>

ListEnd_(l, build) ==
    /\ Budget /\ (Misuse \/ InList)
    /\ LET op == [op |-> IF build THEN "list_build" ELSE "list_end", l |-> l] IN
       IF nlist[l] THEN DeadCall(op)
       ELSE /\ FinishVia(op, End(m))
            /\ UNCHANGED <<nmsg, nlist, nodes>>

ListLenOp(l) ==
    /\ Budget /\ Misuse
    /\ IF nlist[l] THEN DeadCall([op |-> "list_len", l |-> l])
       ELSE /\ Step([op |-> "list_len", l |-> l, len |-> ListLenM(m)], m, "na")
            /\ UNCHANGED <<nmsg, nlist, nodes, built, rootTree, done>>

\* --- value handle (always obtainable from the writer)
ValueBuild ==
    /\ Budget /\ (Misuse \/ (m.err = "none" /\ Len(m.stack) = 1 /\ Top(m).t = "data"))
    /\ FinishVia([op |-> "value_build"], End(m))
    /\ UNCHANGED <<nmsg, nlist, nodes>>

\* --- writer life cycle (misuse programs only)
ResetOp ==
    /\ Budget /\ Misuse
    /\ Step([op |-> "reset"], Fresh, "na")
    /\ UNCHANGED <<nmsg, nlist, nodes, built, rootTree, done>>

\* Reset reached through a message handle (MessageWriter.Unwrap().Reset): a live handle leads to the writer itself; an ended
\* handle leads to the shared placeholder of ended handles, which stays closed whatever is called on it
ResetViaOp(h) ==
    /\ Budget /\ Misuse
    /\ IF nmsg[h] THEN DeadCall([op |-> "reset_via", h |-> h])
       ELSE /\ Step([op |-> "reset_via", h |-> h], Fresh, "na")
            /\ UNCHANGED <<nmsg, nlist, nodes, built, rootTree, done>>

\* Free: close, then release the state; ALWAYS safe (C12)
FreeOp ==
    /\ Budget /\ Misuse
    /\ LET c == Close(m).m IN Step([op |-> "free"], [c EXCEPT !.hasState = FALSE, !.stack = <<>>, !.elems = <<>>, !.fields = <<>>, !.buf = <<>>], "na")
    /\ UNCHANGED <<nmsg, nlist, nodes, built, rootTree, done>>

\* --- macro operations: boundary behaviours expressed as iterated base calls
RECURSIVE RepeatElem(_, _, _)
RepeatElem(mm, v, n) ==
    IF n = 0 THEN R(mm, TRUE)
    ELSE LET w == WriteBytes(mm, EncodeScalar(Val(v)), v)
             r == IF ~w.ok THEN w ELSE Element(w.m)
         IN IF ~r.ok THEN r ELSE RepeatElem(r.m, v, n - 1)

ElemRepeat(l, d, n) ==
    /\ Budget /\ InList /\ ~nlist[l] /\ ~Misuse
    /\ LET r == RepeatElem(m, d, n) IN Step([op |-> "elem_repeat", l |-> l, val |-> d, n |-> n], r.m, RetOf(r.ok))
    /\ nodes' = nodes + 1
    /\ UNCHANGED <<nmsg, nlist, built, rootTree, done>>

RECURSIVE RepeatField(_, _, _, _)
RepeatField(mm, v, t, n) ==
    \* fields t, t-1, ..., t-n+1 in DESCENDING tag order (worst case for the insertion sort)
    IF n = 0 THEN R(mm, TRUE)
    ELSE LET w == WriteBytes(mm, EncodeScalar(Val(v)), v)
             r == IF ~w.ok THEN w ELSE Field(w.m, t)
         IN IF ~r.ok THEN r ELSE RepeatField(r.m, v, t - 1, n - 1)

FieldRepeat(h, d, t, n) ==
    /\ Budget /\ InMsg /\ ~Misuse /\ ~nmsg[h] /\ UsedTags = {}
    /\ LET r == RepeatField(m, d, t, n) IN Step([op |-> "field_repeat", h |-> h, val |-> d, tag |-> t, n |-> n], r.m, RetOf(r.ok))
    /\ nodes' = nodes + 1
    /\ UNCHANGED <<nmsg, nlist, built, rootTree, done>>

RECURSIVE NestMsg(_, _)
NestMsg(mm, n) == IF n = 0 THEN mm ELSE NestMsg(BeginMessage(BeginField(mm, 1)), n - 1)
RECURSIVE UnNest(_, _)
UnNest(mm, n) == IF n = 0 THEN R(mm, TRUE) ELSE LET r == End(mm) IN IF ~r.ok THEN R(r.m, FALSE) ELSE UnNest(r.m, n - 1)

\* Nest(n): n times Field(1).Message(), one scalar at the bottom, then n Ends  (depth beyond the 14 preallocated entries)
Nest(h, d, n) ==
    /\ Budget /\ InMsg /\ ~Misuse /\ ~nmsg[h] /\ 1 \notin UsedTags
    /\ LET m1 == NestMsg(m, n)
           w == WriteBytes(m1, EncodeScalar(Val(d)), d)
           f == IF ~w.ok THEN w ELSE Field(w.m, 2)
           r == IF ~f.ok THEN f ELSE UnNest(f.m, n)
       IN Step([op |-> "nest", h |-> h, val |-> d, n |-> n], r.m, RetOf(r.ok))
    /\ nodes' = nodes + 1
    /\ UNCHANGED <<nmsg, nlist, built, rootTree, done>>

\* SubCopy: a message under `tag` (opened after whatever its parent already holds) writes tag t itself and then copies a
\* source message: fields the nested message already has are kept, the others are copied
SubCopy(h, tag, t, d, s) ==
    /\ Budget /\ InMsg /\ ~Misuse /\ ~nmsg[h] /\ tag \notin UsedTags
    /\ LET m1 == BeginMessage(BeginField(m, tag))
           w == WriteBytes(m1, EncodeScalar(Val(d)), d)
           f == IF ~w.ok THEN w ELSE Field(w.m, t)
           c == IF ~f.ok THEN f ELSE CopyFrom(f.m, EncodeT(Val(s)), 1)
           r == IF ~c.ok THEN c ELSE UnNest(c.m, 1)
       IN Step([op |-> "sub_copy", h |-> h, tag |-> tag, tag2 |-> t, val |-> d, src |-> EncodeT(Val(s))], r.m, RetOf(r.ok))
    /\ nodes' = nodes + 1
    /\ UNCHANGED <<nmsg, nlist, built, rootTree, done>>

\* WriteField(handle.Field(tag), value, fn): the bytes of the value are written by a function of the caller (this is how
\* generated code writes struct and enum fields).  When that function reports an error the writer fails for good
\* (write.go WriteValue -> fail); a writer that has failed already does not call it.
FieldFn(h, tag, d, fails) ==
    /\ Budget /\ NodeBudget /\ (Misuse \/ InMsg)
    /\ IF nmsg[h] THEN DeadCall([op |-> "field_fn", h |-> h, tag |-> tag, val |-> d, fails |-> fails])
       ELSE /\ LET w == IF fails THEN R(Fail(m), FALSE) ELSE WriteBytes(m, EncodeScalar(Val(d)), d)
                   r == IF ~w.ok THEN w ELSE Field(w.m, tag)
               IN Step([op |-> "field_fn", h |-> h, tag |-> tag, val |-> d, fails |-> fails], r.m, RetOf(r.ok))
            /\ nodes' = nodes + 1
            /\ UNCHANGED <<nmsg, nlist, built, rootTree, done>>

MacroStep ==
    \/ \E mc \in Macros : \E h \in MsgHandles : mc.op = "field_fn" /\ FieldFn(h, mc.tag, mc.val, mc.fails)
    \/ \E mc \in Macros : \E h \in MsgHandles : mc.op = "sub_copy" /\ SubCopy(h, mc.tag, mc.tag2, mc.val, mc.src)
    \/ \E mc \in Macros : \E l \in ListHandles : mc.op = "elem_repeat" /\ ElemRepeat(l, mc.val, mc.n)
    \/ \E mc \in Macros : \E h \in MsgHandles : mc.op = "field_repeat" /\ FieldRepeat(h, mc.val, mc.tag, mc.n)
    \/ \E mc \in Macros : \E h \in MsgHandles : mc.op = "nest" /\ Nest(h, mc.val, mc.n)

Init ==
    /\ m = Fresh /\ nmsg = <<>> /\ nlist = <<>> /\ hist = <<>> /\ nodes = 0
    /\ built = <<>> /\ rootTree = VNone /\ done = FALSE

Next ==
    \/ RootMessage \/ RootList
    \/ \E d \in Descs : RootValue(d)
    \/ \E s \in Srcs : RootAny(s)
    \/ \E h \in MsgHandles :
         \/ \E t \in FreeTags : \/ \E d \in Descs : FieldScalar(h, t, d)
                                \/ \E s \in Srcs : FieldAnyOp(h, t, s)
                                \/ FieldMessage(h, t) \/ FieldList(h, t)
                                \/ HasFieldOp(h, t)
         \/ \E s \in {s \in Srcs : Val(s).k = "msg"} : CopyOp(h, s)
         \/ MsgEnd_(h, TRUE) \/ (Misuse /\ MsgEnd_(h, FALSE))
         \/ ResetViaOp(h)
    \/ \E l \in ListHandles :
         \/ \E d \in Descs : ElemScalar(l, d)
         \/ \E s \in Srcs : ElemAnyOp(l, s)
         \/ ElemMessage(l) \/ ElemList(l) \/ ListEnd_(l, TRUE) \/ (Misuse /\ ListEnd_(l, FALSE)) \/ ListLenOp(l)
    \/ ValueBuild
    \/ ResetOp \/ FreeOp
    \/ MacroStep

Spec == Init /\ [][Next]_vars

\* ------------------------------------------------------------- properties
\* C12: the first error is sticky ("closed" may only be left through Reset)
IsReset == hist' # hist /\ LET e == hist'[Len(hist')] IN e.op = "reset" \/ (e.op = "reset_via" /\ e.exp.ret # "dead")
StickyError == [][(m.err # "none" /\ ~IsReset) => m'.err = m.err]_vars

\* C12: a successful root Build returns a well-formed value that parses completely
NoGarbage == built # <<>> => LET p == Parse(built) IN p.ok /\ p.n = Len(built)

\* C08: the operational machine and the denotational encoder agree on every root build
OpEqDen == built # <<>> => built = EncodeT(rootTree)

\* C01: the written tree is what a reader finds
RoundTrip == (built # <<>> /\ TreeDistinct(rootTree)) => Parse(built) = [ok |-> TRUE, n |-> Len(built), v |-> ExpandT(CanonT(rootTree))]

\* C12: Reset gives a clean machine, Free is enabled in every state (it is: FreeOp has no state guard)
ResetIsFresh == [][IsReset => m' = Fresh]_vars

\* small/big selection happens exactly at the boundaries (C01/C08)
BigIffBoundary ==
    built # <<>> =>
        LET t == built[Len(built)] IN
        /\ (t \in {TMessage, TBigMessage} /\ rootTree.k = "msg") =>
              LET h == MsgHeader(built) IN
              (t = TBigMessage) <=> (\/ \E i \in DOMAIN rootTree.fields : rootTree.fields[i][1] > 255
                                     \/ Len(h.data) > 65535)
        /\ (t \in {TList, TBigList} /\ rootTree.k = "list") =>
              LET h == ListHeader(built) IN
              (t = TBigList) <=> (Len(rootTree.elems) > 255 \/ Len(h.data) > 65535)

\* ---------------------------------------------------------------- emission
\* one JSON line per finished program (a state with no enabled continuation, or the op bound)
Finished == done \/ Len(hist) >= MaxOps
=============================================================================
