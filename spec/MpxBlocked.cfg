SPECIFICATION Spec
INVARIANTS ReturnsWhenOver WaitingMeansFull FreeReturnsOk OneFrame
CONSTRAINT Emit
