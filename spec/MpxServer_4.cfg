SPECIFICATION Spec
CONSTANTS
  Ids = {1, 2}
  MaxSteps = 4
INVARIANTS HandlerOnlyIfNegotiated HandlerExactlyOnce CtxCancelledIffEnded DeadMeansNoLive
CONSTRAINT Emit
