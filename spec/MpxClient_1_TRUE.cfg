SPECIFICATION Spec
CONSTANTS
  Max = 1
  Auto = TRUE
CONSTRAINT Bound
INVARIANTS FlagsExclusive ConnectedUsable AtMostMax ClosedIsTerminal BackoffOK
PROPERTIES CloseTerminal AttemptSteps
