\* C01/C08 quick: all legal programs writing <= 9 nodes (simulation) over the full boundary alphabet
SPECIFICATION Spec
CONSTANTS
  Tags <- TagsSmall
  Descs <- ScalarsFull
  Srcs <- SrcsFull
  MaxOps = 30
  MaxNodes = 9
  Misuse = FALSE
  Macros <- NoMacros
INVARIANTS NoGarbage OpEqDen RoundTrip BigIffBoundary
PROPERTIES StickyError
CONSTRAINT EmitDone
