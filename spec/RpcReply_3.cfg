SPECIFICATION Spec
CONSTANTS
  MaxFrames = 3
  SkipBad = FALSE
INVARIANTS OkOnlyIfClean DataIsPrefix
CONSTRAINT Emit
