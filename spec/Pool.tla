-------------------------------- MODULE Pool --------------------------------
(***************************************************************************)
(* Life cycle of a pooled object (C18): writers, writer states, channel    *)
(* states and rpc call states are recycled through pools.                  *)
(*                                                                         *)
(* An object is unborn, free (in its pool) or held.  A holder uses it,     *)
(* which makes attributes dirty (data, error, nesting, window counters,    *)
(* flags); it may pass it to another goroutine explicitly (a channel state *)
(* goes from the receive loop to the handler); releasing resets it.        *)
(*   FreshWhenFree    a free object carries nothing of its previous use    *)
(*   RecycledIsFresh  whoever takes an object from the pool finds it fresh *)
(*   NoStealing       a held object changes hands only by Pass             *)
(* The deviations a defect introduces (release without reset, release of   *)
(* an object somebody still holds) are actions enabled by Faulty, used to  *)
(* show that the properties are not vacuous.                               *)
(***************************************************************************)
EXTENDS Naturals, FiniteSets

CONSTANTS Objs, Procs, Attrs, Faulty

VARIABLES state, holder, dirty
vars == <<state, holder, dirty>>

None == "none"

TypeOK ==
    /\ state \in [Objs -> {"unborn", "free", "held"}]
    /\ holder \in [Objs -> Procs \cup {None}]
    /\ dirty \in [Objs -> SUBSET Attrs]

Init ==
    /\ state = [o \in Objs |-> "unborn"]
    /\ holder = [o \in Objs |-> None]
    /\ dirty = [o \in Objs |-> {}]

\* the pool is empty (or chooses to allocate): a new object
New(p, o) ==
    /\ state[o] = "unborn"
    /\ state' = [state EXCEPT ![o] = "held"]
    /\ holder' = [holder EXCEPT ![o] = p]
    /\ dirty' = [dirty EXCEPT ![o] = {}]

\* an object is taken from the pool as it is
Get(p, o) ==
    /\ state[o] = "free"
    /\ state' = [state EXCEPT ![o] = "held"]
    /\ holder' = [holder EXCEPT ![o] = p]
    /\ UNCHANGED dirty

Use(p, o, a) ==
    /\ state[o] = "held" /\ holder[o] = p
    /\ dirty' = [dirty EXCEPT ![o] = @ \cup {a}]
    /\ UNCHANGED <<state, holder>>

Pass(p, q, o) ==
    /\ state[o] = "held" /\ holder[o] = p /\ q # p
    /\ holder' = [holder EXCEPT ![o] = q]
    /\ UNCHANGED <<state, dirty>>

\* release: reset, then back to the pool
Put(p, o) ==
    /\ state[o] = "held" /\ holder[o] = p
    /\ state' = [state EXCEPT ![o] = "free"]
    /\ holder' = [holder EXCEPT ![o] = None]
    /\ dirty' = [dirty EXCEPT ![o] = {}]

\* the pool drops a free object (garbage collection)
Drop(o) ==
    /\ state[o] = "free"
    /\ state' = [state EXCEPT ![o] = "unborn"]
    /\ UNCHANGED <<holder, dirty>>

\* ---- deviations (only with Faulty)
PutNoReset(p, o) ==
    /\ Faulty
    /\ state[o] = "held" /\ holder[o] = p
    /\ state' = [state EXCEPT ![o] = "free"]
    /\ holder' = [holder EXCEPT ![o] = None]
    /\ UNCHANGED dirty
PutForeign(p, o) ==
    /\ Faulty
    /\ state[o] = "held" /\ holder[o] # p
    /\ state' = [state EXCEPT ![o] = "free"]
    /\ UNCHANGED <<holder, dirty>>

Next ==
    \/ \E p \in Procs, o \in Objs : New(p, o) \/ Get(p, o) \/ Put(p, o) \/ PutNoReset(p, o) \/ PutForeign(p, o)
    \/ \E p \in Procs, o \in Objs, a \in Attrs : Use(p, o, a)
    \/ \E p, q \in Procs, o \in Objs : Pass(p, q, o)
    \/ \E o \in Objs : Drop(o)

Spec == Init /\ [][Next]_vars

FreshWhenFree == \A o \in Objs : state[o] = "free" => dirty[o] = {}
HolderIffHeld == \A o \in Objs : (state[o] = "held") <=> (holder[o] # None)
RecycledIsFresh == [][\A o \in Objs : (state[o] # "held" /\ state'[o] = "held") => dirty'[o] = {}]_vars
NoStealing == [][\A o \in Objs : (state[o] = "held" /\ state'[o] = "held" /\ holder'[o] # holder[o])
                                     => \E p, q \in Procs : Pass(p, q, o)]_vars
=============================================================================
