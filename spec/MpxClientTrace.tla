--------------------------- MODULE MpxClientTrace ---------------------------
(* Validates the client states reported by the verif build at the end of every region locked by the client mutex. *)
EXTENDS MpxClient, Json, Sequences, TLCExt

CONSTANTS TraceFile
TraceLog == ndJsonDeserialize(TraceFile)

VARIABLE l
tvars == <<cvars, l>>
Ev == TraceLog[l]
IsEvent(e) == l <= Len(TraceLog) /\ Ev.e = e /\ l' = l + 1

\* the reported state is the state after the action
Matches == /\ closed' = Ev.closed /\ connected' = Ev.connected /\ disconnected' = Ev.disconnected
           /\ connecting' = Ev.connecting /\ listed' = Ev.listed /\ live' = Ev.live /\ attempt' = Ev.attempt

TInit == CInit /\ l = 1 /\ TLCSet(1, 1)
TClose == IsEvent("cl.close") /\ Close /\ Matches
TConnClosed == IsEvent("cl.connclosed") /\ (\E w \in BOOLEAN : ConnClosed(w)) /\ Matches
TReached == IsEvent("cl.reached") /\ Reached /\ Matches
\* the slow path found a usable connection under the lock and left everything as it was; that connection died before
\* the state was reported at the end of the region (its closed callback comes later)
SlowThenDie == /\ ~closed /\ live > 0 /\ Ev.live < live /\ Ev.live >= 0 /\ live' = Ev.live
               /\ UNCHANGED <<closed, connected, disconnected, connecting, listed, attempt, orphans>>
TSlow == IsEvent("cl.slow") /\ (Slow \/ SlowThenDie) /\ Matches
TAttempt == IsEvent("cl.attempt") /\ Attempt /\ Matches
TAdd == IsEvent("cl.add") /\ (\E a \in BOOLEAN : Add(a)) /\ Matches
TTail == IsEvent("cl.tail") /\ (\E a \in BOOLEAN : Tail(a)) /\ Matches
TReset == IsEvent("reset") /\ closed' = FALSE /\ connected' = FALSE /\ disconnected' = TRUE /\ connecting' = Auto
          /\ listed' = 0 /\ live' = 0 /\ attempt' = 0 /\ orphans' = 0
\* a listed connection dies between two reported states (not under the client mutex)
TDie == l <= Len(TraceLog) /\ Die /\ UNCHANGED l

TNext == TClose \/ TConnClosed \/ TReached \/ TSlow \/ TAttempt \/ TAdd \/ TTail \/ TReset \/ TDie
TSpec == TInit /\ [][TNext]_tvars

HighWater == /\ TLCSet(1, IF TLCGet(1) > l THEN TLCGet(1) ELSE l)
             /\ (l = Len(TraceLog) + 1 => TLCSet("exit", TRUE))
Accepted == \/ TLCGet(1) = Len(TraceLog) + 1
            \/ (PrintT(<<"REJECTED_AT", TLCGet(1), Len(TraceLog)>>) /\ FALSE)
=============================================================================
