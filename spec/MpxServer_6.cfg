SPECIFICATION Spec
CONSTANTS
  Ids = {1, 2}
  MaxSteps = 6
INVARIANTS HandlerOnlyIfNegotiated HandlerExactlyOnce CtxCancelledIffEnded DeadMeansNoLive
CONSTRAINT Emit
