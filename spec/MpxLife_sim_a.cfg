SPECIFICATION Spec
CONSTANTS
  Frames <- FramesA
  WithCloser = FALSE
  UserEnds = "free"


CONSTRAINT Emit
