SPECIFICATION Spec
CONSTANTS
  Max = 1
  Auto = FALSE
CONSTRAINT Bound
INVARIANTS FlagsExclusive ConnectedUsable AtMostMax ClosedIsTerminal BackoffOK
PROPERTIES CloseTerminal AttemptSteps
