SPECIFICATION Spec
CONSTANTS
  Max = 2
  Auto = TRUE
CONSTRAINT Bound
INVARIANTS FlagsExclusive ConnectedUsable AtMostMax ClosedIsTerminal BackoffOK
PROPERTIES CloseTerminal AttemptSteps
