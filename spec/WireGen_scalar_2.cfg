SPECIFICATION Spec
CONSTANTS
  Mode = "scalar"
  Level = 2
INVARIANTS RoundTripInv CodecInverse WidenNarrow AgreeInv LocalInv TagIndependence
CONSTRAINT Emit
