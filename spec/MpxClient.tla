----------------------------- MODULE MpxClient -----------------------------
(***************************************************************************)
(* The mpx client's connection bookkeeping (C19): one action per region    *)
(* of mpx/client.go that runs under the client mutex (Close, onConnClosed, *)
(* onConnChannelsReached, the slow path of conn(), the two locked regions  *)
(* of connectRecover, the tail of connect1), plus the environment (a       *)
(* listed connection dies; a dial succeeds or fails).                      *)
(*                                                                         *)
(* MpxClientMC explores it exhaustively; MpxClientTrace validates the      *)
(* states the verif build reports at the end of every locked region.       *)
(***************************************************************************)
EXTENDS Integers, TLC

CONSTANTS Max,      \* Options.ClientMaxConns (0 = unlimited)
          Auto      \* BOOLEAN: ClientMode_AutoConnect

VARIABLES closed, connected, disconnected, connecting, listed, live, attempt,
          orphans   \* connections which are not listed and whose closed callback may still come: un-listed by Close,
                    \* discarded by a late Add, or created by a dial attempt that has not added its connection (yet)
cvars == <<closed, connected, disconnected, connecting, listed, live, attempt, orphans>>

CInit == /\ closed = FALSE /\ connected = FALSE /\ disconnected = TRUE
         /\ connecting = Auto          \* an auto-connect client starts connecting in its constructor
         /\ listed = 0 /\ live = 0 /\ attempt = 0 /\ orphans = 0

\* connect(): start a connect routine unless one is registered
StartConnect(c) == TRUE

Close ==
    /\ IF closed THEN UNCHANGED cvars
       ELSE /\ closed' = TRUE /\ connecting' = FALSE /\ listed' = 0 /\ live' = 0
            /\ orphans' = orphans + listed
            /\ connected' = FALSE /\ disconnected' = TRUE /\ UNCHANGED attempt

\* onConnClosed(conn): a listed connection is removed from the list; the callback of a connection that is not listed
\* (un-listed by Close, discarded by a late Add, closed by a failed handshake) changes nothing
ConnClosed(wasListed) ==
    /\ wasListed => listed > 0
    /\ ~wasListed => orphans > 0
    /\ orphans' = IF wasListed THEN orphans ELSE orphans - 1
    /\ LET n == IF wasListed THEN listed - 1 ELSE listed IN
       /\ listed' = n
       /\ live' = IF live > n THEN n ELSE live
       /\ IF n > 0 THEN UNCHANGED <<connected, disconnected, connecting>>
          ELSE /\ connected' = FALSE
               /\ disconnected' = (IF connected THEN TRUE ELSE disconnected)
               /\ connecting' = (IF Auto THEN TRUE ELSE connecting)
    /\ UNCHANGED <<closed, attempt>>

\* onConnChannelsReached: open one more connection while below the maximum
Reached ==
    /\ connecting' = (IF Max > 0 /\ listed < Max THEN TRUE ELSE connecting)
    /\ UNCHANGED <<closed, connected, disconnected, listed, live, attempt, orphans>>

\* conn() slow path: no usable connection was found without the lock
Slow ==
    /\ IF closed \/ live > 0 THEN UNCHANGED cvars
       ELSE /\ connected' = FALSE
            /\ disconnected' = (IF connected THEN TRUE ELSE disconnected)
            /\ connecting' = TRUE
            /\ UNCHANGED <<closed, listed, live, attempt, orphans>>

\* connectRecover, first region: count the attempt (the back-off sleep follows outside the lock)
Attempt ==
    /\ attempt' = attempt + 1
    /\ orphans' = orphans + 1            \* the dial may create a connection (a failed handshake closes it un-listed)
    /\ UNCHANGED <<closed, connected, disconnected, connecting, listed, live>>

\* connectRecover, last region: the dial succeeded.  The new connection may be dead already when it is listed (the server
\* went away right after the handshake): it is listed all the same, its closed callback removes it later.
Add(alive) ==
    /\ IF closed THEN UNCHANGED cvars                       \* the new connection is closed again, nothing is listed
       ELSE /\ listed' = listed + 1 /\ live' = live + (IF alive THEN 1 ELSE 0) /\ attempt' = 0
            /\ connected' = TRUE /\ disconnected' = FALSE
            /\ orphans' = IF orphans > 0 THEN orphans - 1 ELSE 0     \* the attempt's connection is listed now
            /\ UNCHANGED <<closed, connecting>>

\* connect1 tail: the routine unregisters itself; after a failure an auto-connect client that is not closed tries again
Tail(again) ==
    /\ again => (Auto /\ ~closed)
    /\ connecting' = again
    /\ UNCHANGED <<closed, connected, disconnected, listed, live, attempt, orphans>>

\* environment: a listed connection dies (its closed flag is set before onConnClosed runs)
Die ==
    /\ live > 0 /\ live' = live - 1
    /\ UNCHANGED <<closed, connected, disconnected, connecting, listed, attempt, orphans>>

\* ------------------------------------------------------------- properties
FlagsExclusive == connected # disconnected
ConnectedUsable == connected => listed >= 1
AtMostMax == Max > 0 => live <= Max
ClosedIsTerminal == closed => (~connected /\ disconnected /\ listed = 0)
CloseTerminal == [][closed => closed']_cvars
AttemptSteps == [][attempt' = attempt \/ attempt' = attempt + 1 \/ attempt' = 0]_cvars

\* the back-off of the auto-connect client (client.go reconnectTimeout), milliseconds, with the 16-bit wrap explicit
Pow2(n) == IF n >= 31 THEN 0 ELSE 2^n                    \* only the low 16 bits matter below
Backoff(a) == LET multi == IF a >= 16 THEN 65534 ELSE (Pow2(a) - 2) % 65536
                  t == 25 * multi
              IN IF t > 1000 THEN 1000 ELSE t
BackoffOK == \A a \in 2..200 : Backoff(a) >= 25 /\ Backoff(a) <= 1000 /\ Backoff(a) <= Backoff(a + 1)
=============================================================================
