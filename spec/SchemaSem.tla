------------------------------ MODULE SchemaSem ------------------------------
(***************************************************************************)
(* Meaning of the schema language (C05, C14, C16).                         *)
(*                                                                         *)
(* SchemaLang.tla gives the SYNTAX (trees and their token sequences),      *)
(* WireFormat.tla the wire layout.  This module adds                       *)
(*   - the static rules of the language as a function  Violations(world)   *)
(*     from a set of packages to the set of broken rules, each with the    *)
(*     name of the offending element (the compiler must reject exactly the *)
(*     worlds with a non-empty set and name that element),                 *)
(*   - the meaning of an accepted schema: every field of a message is the  *)
(*     pair (tag, wire type) declared, so a value of the message type IS   *)
(*     the dynamic value  VMsg(<<tag, value>>...)  and its bytes are       *)
(*     Encode of that; structs are VStruct in declaration order, enums are *)
(*     int32, lists are VList.                                             *)
(*   - generators: the transition system builds schemas field by field     *)
(*     (families single/multi/svc/either) and applies one mutation operator*)
(*     per rule at every applicable site of a base schema (family mutant). *)
(* TLC prints one record per schema; lgen renders the token sequences,     *)
(* runs the real `spec generate`, compiles the output and drives the       *)
(* generated writers/readers with the values of the record.                *)
(***************************************************************************)
EXTENDS SchemaLang, WireFormat

CONSTANTS Family,     \* "single" | "multi" | "svc" | "either" | "mutant" | "evolve" | "lexical"
          MaxFields   \* number of fields of Rec in the multi family; number of edits in the evolve family

\* ------------------------------------------------------------------ worlds
\* world: sequence of packages; the FIRST package is the one given to the compiler, all are on the import path
MkFile(name, imps, opts, defs) ==
    [name |-> name, ast |-> [hasImports |-> Len(imps) > 0, imports |-> imps, hasOptions |-> Len(opts) > 0, options |-> opts, defs |-> defs]]
MkPkg(id, files) == [id |-> id, files |-> files]
ImpDecl(id, alias) == [id |-> id, alias |-> alias]
GoPkgOpt(p) == [name |-> "go_package", value |-> "gen/CASE/" \o p]      \* lgen substitutes CASE

PkgDefs(p) == Cat([i \in DOMAIN p.files |-> p.files[i].ast.defs])

\* ------------------------------------------------------------------ names
\* schema name -> Go identifier (upper camel case of the snake-case parts)
Names == <<
    [s |-> "a", go |-> "A"], [s |-> "type", go |-> "Type"], [s |-> "message", go |-> "Message"],
    [s |-> "import", go |-> "Import"], [s |-> "any", go |-> "Any"], [s |-> "options", go |-> "Options"],
    [s |-> "struct", go |-> "Struct"], [s |-> "service", go |-> "Service"], [s |-> "subservice", go |-> "Subservice"],
    [s |-> "snake_case_name", go |-> "SnakeCaseName"], [s |-> "x_1", go |-> "X1"], [s |-> "b2", go |-> "B2"],
    [s |-> "UPPER", go |-> "Upper"], [s |-> "mixedCase", go |-> "Mixedcase"], [s |-> "über_x", go |-> "ÜberX"],
    \* names of the fixed library
    [s |-> "v", go |-> "V"], [s |-> "x", go |-> "X"], [s |-> "y", go |-> "Y"], [s |-> "ok", go |-> "Ok"], [s |-> "s", go |-> "S"],
    [s |-> "k", go |-> "K"], [s |-> "id", go |-> "Id"], [s |-> "f", go |-> "F"], [s |-> "p", go |-> "P"], [s |-> "z", go |-> "Z"],
    [s |-> "pt", go |-> "Pt"], [s |-> "c", go |-> "C"], [s |-> "name", go |-> "Name"], [s |-> "sub", go |-> "Sub"],
    [s |-> "ext", go |-> "Ext"], [s |-> "ints", go |-> "Ints"], [s |-> "subs", go |-> "Subs"], [s |-> "b", go |-> "B"],
    [s |-> "NONE", go |-> "None"], [s |-> "RED", go |-> "Red"], [s |-> "dark_blue", go |-> "DarkBlue"],
    [s |-> "UNDEFINED", go |-> "Undefined"], [s |-> "FIRST", go |-> "First"], [s |-> "second_value", go |-> "SecondValue"],
    [s |-> "BIG", go |-> "Big"],
    [s |-> "do_unary", go |-> "DoUnary"], [s |-> "nothing", go |-> "Nothing"], [s |-> "one", go |-> "One"], [s |-> "chan", go |-> "Chan"],
    [s |-> "recv", go |-> "Recv"], [s |-> "send", go |-> "Send"], [s |-> "getMsg", go |-> "Getmsg"], [s |-> "say_hello", go |-> "SayHello"],
    [s |-> "open_sub", go |-> "OpenSub"] >>
FieldNamePool == 15       \* the first 15 entries are used for generated field names
GoName(s) == LET S == {i \in DOMAIN Names : Names[i].s = s} IN IF S = {} THEN "?" ELSE Names[CHOOSE i \in S : TRUE].go

\* ------------------------------------------------------------------ literals
HugeLits == {"2147483648", "4294967296", "9223372036854775808"}
SmallInts == {0, 1, 2, 3, 4, 5, 6, 7, 10, 255, 256, 300, 1000, 65535, 65536, 70000, 2147483647}
LitNum(l) == IF l \in HugeLits THEN -1 ELSE CHOOSE n \in SmallInts : ToString(n) = l
TagOK(l) == LitNum(l) >= 1 /\ LitNum(l) <= 65535
EnumNumOK(l) == LitNum(l) >= 0

\* ------------------------------------------------------------------ the fixed library
ColorDef == Enum("Color", <<EV("NONE", "0"), EV("RED", "1"), EV("dark_blue", "2")>>)
PtDef == Struct("Pt", <<SF("x", B("int32")), SF("y", B("int64"))>>)
ExtDef == Message("Ext", <<F("id", B("int64"), "1"), F("name", B("string"), "2")>>, TRUE)
PkgB(imps) == MkPkg("pkgb", <<MkFile("b.spec", imps, <<GoPkgOpt("pkgb")>>, <<ColorDef, PtDef, ExtDef>>)>>)

KindDef == Enum("Kind", <<EV("UNDEFINED", "0"), EV("FIRST", "1"), EV("second_value", "2"), EV("BIG", "2147483647")>>)
PDef == Struct("P", <<SF("x", B("int32")), SF("ok", B("bool")), SF("s", B("string")), SF("k", Ref("Kind")),
                      SF("id", B("bin128")), SF("f", B("float64"))>>)
QDef(imp) == Struct("Q", <<SF("p", Ref("P")), SF("z", B("uint64"))>>
                         \o (IF imp = "" THEN <<>> ELSE <<SF("pt", Imp(imp, "Pt")), SF("c", Imp(imp, "Color"))>>))
SubDef == Message("Sub", <<F("v", B("int32"), "1"), F("message", B("string"), "300")>>, TRUE)

\* import shapes of the compiled package: the name by which pkgb is referenced ("" = not imported)
Shapes == <<"none", "plain", "alias">>
ImpName(shape) == CASE shape = "none" -> "" [] shape = "plain" -> "pkgb" [] shape = "alias" -> "b2"
ImpDecls(shape) == CASE shape = "none" -> <<>> [] shape = "plain" -> <<ImpDecl("pkgb", "")>> [] shape = "alias" -> <<ImpDecl("pkgb", "b2")>>

ScalarTypes == [i \in DOMAIN AllBase |-> B(AllBase[i])]
LocalTypes == <<TAny, TMsg, Ref("Kind"), Ref("P"), Ref("Q"), Ref("Sub")>>
ListTypes == <<L(B("bool")), L(B("int64")), L(B("uint16")), L(B("float64")), L(B("string")), L(B("bytes")), L(B("bin128")),
               L(Ref("Kind")), L(Ref("P")), L(Ref("Sub")), L(TAny), L(TMsg)>>
ImpTypes(imp) == <<Imp(imp, "Color"), Imp(imp, "Pt"), Imp(imp, "Ext"), L(Imp(imp, "Ext")), L(Imp(imp, "Color")), L(Imp(imp, "Pt"))>>
TypePool(shape) == Force(ScalarTypes \o LocalTypes \o ListTypes \o (IF shape = "none" THEN <<>> ELSE ImpTypes(ImpName(shape))))
EitherTypes == <<L(TAny), L(TMsg)>>       \* the statement of C14 lets the compiler reject these or generate compiling code
TagPool == <<"1", "2", "7", "255", "256", "1000", "65535", "3", "5", "10", "300">>

SvcDef(imp) == Service("Svc", FALSE, <<
    \* (method names in snake case and mixed case: the name on the wire is the schema's, the Go identifier is derived)
    Mth("do_unary", IOFields(<<F("a", B("int32"), "1"), F("type", B("string"), "2")>>, FALSE), NoChan, IOFields(<<F("c", B("int64"), "1")>>, FALSE), FALSE),
    Mth("nothing", IOFields(<<>>, FALSE), NoChan, NoIO, FALSE),
    Mth("one", IOType(Ref("Sub")), NoChan, NoIO, TRUE),
    Mth("open_sub", IOFields(<<F("id", B("bin128"), "1")>>, FALSE), NoChan, IOType(Ref("Svc2")), FALSE),
    Mth("chan", IOType(Ref("Sub")), ChInOut(Ref("Sub"), IF imp = "" THEN Ref("Sub") ELSE Imp(imp, "Ext")), IOType(Ref("Sub")), FALSE),
    Mth("recv", IOType(Ref("Sub")), ChIn(Ref("Sub")), NoIO, FALSE),
    Mth("send", IOFields(<<F("b", L(B("string")), "1")>>, TRUE), ChOut(Ref("Sub")), IOFields(<<F("ok", B("bool"), "1"), F("p", Ref("P"), "2")>>, TRUE), FALSE),
    Mth("getMsg", IOType(Ref("Sub")), NoChan, IOType(IF imp = "" THEN Ref("Sub") ELSE Imp(imp, "Ext")), FALSE)>>)
Svc2Def == Service("Svc2", TRUE, <<Mth("say_hello", IOFields(<<F("s", B("string"), "1")>>, FALSE), NoChan, IOFields(<<F("s", B("string"), "1")>>, FALSE), FALSE)>>)

RecDef(fields) == Message("Rec", fields, TRUE)

\* the compiled package: library definitions + Rec (+ services); nfiles = 2 splits the definitions over two files
PkgA(shape, nfiles, fields, svc) ==
    LET imp == ImpName(shape)
        lib == <<KindDef, PDef, QDef(imp), SubDef>>
        tail == <<RecDef(fields)>> \o (IF svc THEN <<SvcDef(imp), Svc2Def>> ELSE <<>>)
    IN IF nfiles = 1
       THEN MkPkg("pkga", <<MkFile("a.spec", ImpDecls(shape), <<GoPkgOpt("pkga")>>, lib \o tail)>>)
       ELSE MkPkg("pkga", <<MkFile("a.spec", ImpDecls(shape), <<GoPkgOpt("pkga")>>, tail),
                            MkFile("lib.spec", ImpDecls(shape), <<>>, lib)>>)
World(shape, nfiles, fields, svc) == <<PkgA(shape, nfiles, fields, svc)>> \o (IF shape = "none" THEN <<>> ELSE <<PkgB(<<>>)>>)

\* ------------------------------------------------------------------ resolution
NoDef == [t |-> "unknown", name |-> ""]
FindDef(defs, name) == LET S == {i \in DOMAIN defs : defs[i].name = name}
                       IN IF S = {} THEN NoDef ELSE defs[CHOOSE i \in S : \A j \in S : i <= j]
NoPkg == [id |-> "", files |-> <<>>]
PkgById(world, id) == LET S == {i \in DOMAIN world : world[i].id = id} IN IF S = {} THEN NoPkg ELSE world[CHOOSE i \in S : TRUE]
ImpEffName(d) == IF d.alias = "" THEN d.id ELSE d.alias        \* ids here have no '/', so the base name is the id
FileImport(fl, name) == LET S == {i \in DOMAIN fl.ast.imports : ImpEffName(fl.ast.imports[i]) = name}
                          IN IF S = {} THEN ImpDecl("", "") ELSE fl.ast.imports[CHOOSE i \in S : \A j \in S : i <= j]
\* the definition a type refers to
TypeDef(t, world, pkg, fl) ==
    CASE t.k = "ref" -> FindDef(PkgDefs(pkg), t.name)
      [] t.k = "imp" -> LET d == FileImport(fl, t.pkg) IN IF d.id = "" THEN NoDef ELSE FindDef(PkgDefs(PkgById(world, d.id)), t.name)
      [] OTHER -> NoDef
\* kind: "scalar" | "any" | "anymsg" | "list" | "enum" | "struct" | "message" | "service" | "unknown"
KindOf(t, world, pkg, fl) ==
    CASE t.k = "base" -> "scalar" [] t.k = "any" -> "any" [] t.k = "message" -> "anymsg" [] t.k = "list" -> "list"
      [] OTHER -> LET d == TypeDef(t, world, pkg, fl) IN IF d.t = "unknown" THEN "unknown" ELSE d.t
\* the package and fl in which the definition of t lives (for nested resolution)
HomePkg(t, world, pkg, fl) == IF t.k = "imp" THEN PkgById(world, FileImport(fl, t.pkg).id) ELSE pkg
FileOfDef(p, name) == LET S == {i \in DOMAIN p.files : \E j \in DOMAIN p.files[i].ast.defs : p.files[i].ast.defs[j].name = name}
                      IN IF S = {} THEN MkFile("", <<>>, <<>>, <<>>) ELSE p.files[CHOOSE i \in S : \A j \in S : i <= j]

\* ------------------------------------------------------------------ static rules
V(rule, name) == [rule |-> rule, name |-> name]
Earlier(seq, i, key(_)) == \E j \in 1..(i-1) : key(seq[j]) = key(seq[i])
NameKey(x) == x.name
LitKey(x) == x.lit

\* a field list (message fields, method arguments or results)
FieldRules(fs, world, pkg, fl) ==
    UNION {
      (IF Earlier(fs, i, NameKey) THEN {V("dup_field", fs[i].name)} ELSE {})
      \cup (IF LitNum(fs[i].lit) = 0 THEN {V("tag_zero", fs[i].name)} ELSE {})
      \cup (IF LitNum(fs[i].lit) # 0 /\ ~TagOK(fs[i].lit) THEN {V("tag_range", fs[i].name)} ELSE {})
      \cup (IF TagOK(fs[i].lit) /\ Earlier(fs, i, LitKey) THEN {V("dup_tag", fs[i].name)} ELSE {})
      \cup (LET t == fs[i].type
                k == KindOf(t, world, pkg, fl)
                ek == IF t.k = "list" THEN KindOf(t.elem, world, pkg, fl) ELSE "scalar"
            IN (IF k = "unknown" \/ ek = "unknown" THEN {V("unknown_type", fs[i].name)} ELSE {})
               \cup (IF k = "service" \/ ek = "service" THEN {V("service_type", fs[i].name)} ELSE {}))
      : i \in DOMAIN fs }

EnumRules(d) ==
    UNION { (IF Earlier(d.values, i, NameKey) THEN {V("dup_enum_name", d.values[i].name)} ELSE {})
            \cup (IF ~EnumNumOK(d.values[i].lit) THEN {V("enum_range", d.values[i].name)} ELSE {})
            \cup (IF EnumNumOK(d.values[i].lit) /\ Earlier(d.values, i, LitKey) THEN {V("dup_enum_num", d.values[i].name)} ELSE {})
            : i \in DOMAIN d.values }
    \cup (IF \E i \in DOMAIN d.values : d.values[i].lit = "0" THEN {} ELSE {V("enum_no_zero", d.name)})

\* names of the structs of pkg that struct `name` contains directly
StructRefs(name, world, pkg) ==
    LET d == FindDef(PkgDefs(pkg), name) IN
    IF d.t # "struct" THEN {} ELSE
    { d.sfields[i].type.name : i \in {j \in DOMAIN d.sfields : d.sfields[j].type.k = "ref"
                                         /\ FindDef(PkgDefs(pkg), d.sfields[j].type.name).t = "struct"} }
RECURSIVE ReachN(_, _, _, _)
ReachN(S, n, world, pkg) == IF n = 0 THEN S ELSE ReachN(S \cup UNION {StructRefs(x, world, pkg) : x \in S}, n - 1, world, pkg)

StructRules(d, world, pkg, fl) ==
    UNION { (IF Earlier(d.sfields, i, NameKey) THEN {V("dup_struct_field", d.sfields[i].name)} ELSE {})
            \cup (LET k == KindOf(d.sfields[i].type, world, pkg, fl)
                  IN (IF k = "unknown" THEN {V("unknown_type", d.sfields[i].name)} ELSE {})
                     \cup (IF k = "service" THEN {V("service_type", d.sfields[i].name)} ELSE {})
                     \cup (IF k \in {"any", "anymsg", "message", "list"} THEN {V("struct_nonvalue", d.sfields[i].name)} ELSE {}))
            : i \in DOMAIN d.sfields }
    \cup (IF d.name \in ReachN(StructRefs(d.name, world, pkg), 4, world, pkg) THEN {V("struct_cycle", d.name)} ELSE {})

IORules(io, isInput, mname, world, pkg, fl) ==
    CASE io.k = "fields" -> FieldRules(io.fields, world, pkg, fl)
      [] io.k = "type" -> LET k == KindOf(io.type, world, pkg, fl)
                          IN IF k = "unknown" THEN {V("unknown_type", mname)}
                             ELSE IF isInput /\ k # "message" THEN {V("method_input", mname)}
                             ELSE IF ~isInput /\ k \notin {"message", "service"} THEN {V("method_output", mname)}
                             ELSE {}
      [] OTHER -> {}
ChanTypeRules(t, mname, world, pkg, fl) ==
    LET k == KindOf(t, world, pkg, fl)
    IN IF k = "unknown" THEN {V("unknown_type", mname)} ELSE IF k # "message" THEN {V("chan_nonmessage", mname)} ELSE {}
MethodRules(m, world, pkg, fl) ==
    LET hasOut == m.output.k # "none" /\ ~m.oneway
        outSvc == hasOut /\ m.output.k = "type" /\ KindOf(m.output.type, world, pkg, fl) = "service"
    IN IORules(m.input, TRUE, m.name, world, pkg, fl)
       \cup (IF m.oneway THEN {} ELSE IORules(m.output, FALSE, m.name, world, pkg, fl))
       \cup (IF m.chan.k \in {"in", "inout"} THEN ChanTypeRules(m.chan.in, m.name, world, pkg, fl) ELSE {})
       \cup (IF m.chan.k \in {"out", "inout"} THEN ChanTypeRules(m.chan.out, m.name, world, pkg, fl) ELSE {})
       \cup (IF m.oneway /\ m.chan.k # "none" THEN {V("method_oneway", m.name)} ELSE {})
       \cup (IF m.chan.k # "none" /\ outSvc THEN {V("method_chan_sub", m.name)} ELSE {})
ServiceRules(d, world, pkg, fl) ==
    UNION { (IF Earlier(d.methods, i, NameKey) THEN {V("dup_method", d.methods[i].name)} ELSE {})
            \cup MethodRules(d.methods[i], world, pkg, fl) : i \in DOMAIN d.methods }

DefRules(d, world, pkg, fl) ==
    CASE d.t = "enum" -> EnumRules(d)
      [] d.t = "message" -> FieldRules(d.fields, world, pkg, fl)
      [] d.t = "struct" -> StructRules(d, world, pkg, fl)
      [] d.t = "service" -> ServiceRules(d, world, pkg, fl)

\* packages reachable through imports from a package id (ids; missing ones included)
PkgImports(world, id) == LET p == PkgById(world, id) IN
    UNION { {p.files[i].ast.imports[j].id : j \in DOMAIN p.files[i].ast.imports} : i \in DOMAIN p.files }
RECURSIVE ImportClosure(_, _, _)
ImportClosure(world, S, n) == IF n = 0 THEN S ELSE ImportClosure(world, S \cup UNION {PkgImports(world, x) : x \in S}, n - 1)

FileRules(f) ==
    UNION { (IF \E j \in 1..(i-1) : ImpEffName(f.ast.imports[j]) = ImpEffName(f.ast.imports[i])
             THEN {V("dup_import", ImpEffName(f.ast.imports[i]))} ELSE {}) : i \in DOMAIN f.ast.imports }
    \cup UNION { (IF Earlier(f.ast.options, i, NameKey) THEN {V("dup_option", f.ast.options[i].name)} ELSE {}) : i \in DOMAIN f.ast.options }

PkgRules(world, p) ==
    LET defs == PkgDefs(p) IN
    UNION { (IF Earlier(defs, i, NameKey) THEN {V("dup_def", defs[i].name)} ELSE {}) : i \in DOMAIN defs }
    \cup UNION { FileRules(p.files[i]) : i \in DOMAIN p.files }
    \cup UNION { UNION { DefRules(p.files[i].ast.defs[j], world, p, p.files[i]) : j \in DOMAIN p.files[i].ast.defs } : i \in DOMAIN p.files }

Violations(world) ==
    LET root == world[1].id
        direct == PkgImports(world, root)
        all == ImportClosure(world, direct, 3)
    IN (IF root \in all THEN {V("import_cycle", root)} ELSE {})
       \cup { V("import_missing", id) : id \in {x \in all : PkgById(world, x).id = ""} }
       \cup UNION { PkgRules(world, PkgById(world, id)) : id \in ({root} \cup {x \in all : PkgById(world, x).id # ""}) }

\* ------------------------------------------------------------------ values of declared types
VInt32(n) == SmallInt("int32", n)
ScalarVal(name, v) ==
    CASE name = "bool" -> VBool(v = 1)
      [] name = "byte" -> VByte(IF v = 1 THEN 255 ELSE 7)
      [] name = "int16" -> IF v = 1 THEN SmallInt("int16", -32768) ELSE SmallInt("int16", 126)
      [] name = "int32" -> IF v = 1 THEN VInt("int32", TRUE, <<0,0,0,0,128,0,0,0>>) ELSE SmallInt("int32", 0)
      [] name = "int64" -> IF v = 1 THEN VInt("int64", TRUE, <<128,0,0,0,0,0,0,0>>) ELSE VInt("int64", FALSE, <<127,255,255,255,255,255,255,255>>)
      [] name = "uint16" -> IF v = 1 THEN SmallUint("uint16", 65535) ELSE SmallUint("uint16", 253)
      [] name = "uint32" -> IF v = 1 THEN VUint("uint32", <<0,0,0,0,255,255,255,255>>) ELSE SmallUint("uint32", 0)
      [] name = "uint64" -> IF v = 1 THEN VUint("uint64", <<255,255,255,255,255,255,255,255>>) ELSE SmallUint("uint64", 65536)
      [] name = "float32" -> IF v = 1 THEN VF32(<<63,192,0,0>>) ELSE VF32(<<255,127,255,255>>)
      [] name = "float64" -> IF v = 1 THEN VF64(<<128,0,0,0,0,0,0,0>>) ELSE VF64(<<63,248,0,0,0,0,0,0>>)
      [] name = "bin64" -> VBin("bin64", IF v = 1 THEN <<1,2,3,4,5,6,7,8>> ELSE Zero8)
      [] name = "bin128" -> VBin("bin128", [i \in 1..16 |-> IF v = 1 THEN i ELSE 255])
      [] name = "bin256" -> VBin("bin256", [i \in 1..32 |-> IF v = 1 THEN 255 - i ELSE 0])
      [] name = "bytes" -> VBytes(IF v = 1 THEN <<0, 255, 3>> ELSE <<>>)
      [] name = "string" -> VString(IF v = 1 THEN <<104, 105>> ELSE <<>>)

\* v = 1, 2: two values of the type; lists: v = 1 two elements, v = 2 empty
RECURSIVE ValOf(_, _, _, _, _)
ValOf(t, v, world, pkg, fl) ==
    CASE t.k = "base" -> ScalarVal(t.name, v)
      [] t.k = "any" -> IF v = 1 THEN SmallInt("int64", -300) ELSE VList(<<VByte(9), VString(<<120>>)>>)
      [] t.k = "message" -> IF v = 1 THEN VMsg(<< <<1, VInt32(5)>>, <<300, VString(<<97>>)>> >>) ELSE VMsg(<<>>)
      [] t.k = "list" -> IF v = 1 THEN VList(<<ValOf(t.elem, 1, world, pkg, fl), ValOf(t.elem, 2, world, pkg, fl)>>) ELSE VList(<<>>)
      [] OTHER ->
          LET d == TypeDef(t, world, pkg, fl)
              hp == HomePkg(t, world, pkg, fl)
              hf == FileOfDef(hp, d.name)
          IN CASE d.t = "enum" -> LET i == IF v = 1 THEN Len(d.values) ELSE 1 IN VInt32(LitNum(d.values[i].lit))
               [] d.t = "struct" -> VStruct(Force([i \in DOMAIN d.sfields |-> ValOf(d.sfields[i].type, v, world, hp, hf)]))
               [] d.t = "message" -> VMsg(Force([i \in DOMAIN d.fields |-> <<LitNum(d.fields[i].lit), ValOf(d.fields[i].type, v, world, hp, hf)>>]))

Unset == [k |-> "unset"]
\* the meaning of message `name` of the compiled package: accessors and, per run, values and bytes
RunsFor(n) == << [i \in 1..n |-> 1], [i \in 1..n |-> 2], [i \in 1..n |-> i % 3], [i \in 1..n |-> 0] >>

\* the meaning of a message with the given fields declared in file fl of the compiled package
MsgSemF(world, name, fl, fs, runs) ==
    LET pkg == world[1]
        vals(r) == Force([i \in DOMAIN fs |-> IF runs[r][i] = 0 THEN Unset ELSE ValOf(fs[i].type, runs[r][i], world, pkg, fl)])
    IN [msg |-> name, file |-> fl.name,
        fields |-> [i \in DOMAIN fs |-> [name |-> fs[i].name, go |-> GoName(fs[i].name), tag |-> LitNum(fs[i].lit), type |-> fs[i].type]],
        runs |-> [r \in DOMAIN runs |->
            LET vs == vals(r)
                written == SelectSeq([i \in DOMAIN fs |-> <<LitNum(fs[i].lit), vs[i]>>], LAMBDA p : p[2].k # "unset")
            IN [vals |-> vs,
                raws |-> [i \in DOMAIN fs |-> IF vs[i].k = "unset" THEN <<>> ELSE Encode(vs[i])],
                eraws |-> [i \in DOMAIN fs |-> IF vs[i].k = "list" THEN [e \in DOMAIN vs[i].elems |-> Encode(vs[i].elems[e])] ELSE <<>>],
                msgval |-> Canon(VMsg(written)),
                bytes |-> Encode(VMsg(written))]]]
MsgSem(world, name, runs) ==
    LET pkg == world[1] IN MsgSemF(world, name, FileOfDef(pkg, name), FindDef(PkgDefs(pkg), name).fields, runs)

\* a method whose arguments (results) are a field list gets a generated message <Service><Method>Request (Response)
\* with exactly those fields: the same meaning as a declared message
MethodMsgs(world) ==
    LET pkg == world[1]
        svcs == SelectSeq(PkgDefs(pkg), LAMBDA d : d.t = "service")
        one(sv, mt) ==
            (IF mt.input.k = "fields" /\ Len(mt.input.fields) > 0
             THEN <<[name |-> sv.name \o GoName(mt.name) \o "Request", fields |-> mt.input.fields, file |-> FileOfDef(pkg, sv.name)]>> ELSE <<>>)
            \o (IF ~mt.oneway /\ mt.output.k = "fields" /\ Len(mt.output.fields) > 0
                THEN <<[name |-> sv.name \o GoName(mt.name) \o "Response", fields |-> mt.output.fields, file |-> FileOfDef(pkg, sv.name)]>> ELSE <<>>)
    IN Cat([i \in DOMAIN svcs |-> Cat([j \in DOMAIN svcs[i].methods |-> one(svcs[i], svcs[i].methods[j])])])
MethodSems(world) ==
    LET ms == MethodMsgs(world)
    IN [i \in DOMAIN ms |-> MsgSemF(world, ms[i].name, ms[i].file, ms[i].fields, RunsFor(Len(ms[i].fields)))]
StructSem(world, name) ==
    LET pkg == world[1]
        fl == FileOfDef(pkg, name)
    IN [name |-> name, file |-> fl.name,
        vals |-> [v \in 1..2 |-> ValOf(Ref(name), v, world, pkg, fl)],
        raws |-> [v \in 1..2 |-> Encode(ValOf(Ref(name), v, world, pkg, fl))]]
EnumSem(d) == [name |-> d.name, values |-> [i \in DOMAIN d.values |-> [name |-> d.values[i].name, go |-> d.name \o "_" \o GoName(d.values[i].name),
                                                                     num |-> LitNum(d.values[i].lit)]]]


\* ------------------------------------------------------------------ mutation operators (family mutant)
BaseFields == <<F("a", B("int32"), "1"), F("type", Ref("Kind"), "2"), F("sub", Ref("Sub"), "3"), F("ext", Imp("pkgb", "Ext"), "4"),
                F("ints", L(B("int64")), "255"), F("subs", L(Ref("Sub")), "256"), F("p", Ref("P"), "65535")>>
BaseWorld == World("plain", 1, BaseFields, TRUE)
BaseDefs == BaseWorld[1].files[1].ast.defs          \* Kind P Q Sub Rec Svc Svc2
IKind == 1  IP == 2  IQ == 3  ISub == 4  IRec == 5  ISvc == 6  ISvc2 == 7

WithDefs(defs) == [BaseWorld EXCEPT ![1].files[1].ast.defs = defs]
WithDef(i, d) == WithDefs([BaseDefs EXCEPT ![i] = d])
WithRecField(i, f) == WithDef(IRec, [BaseDefs[IRec] EXCEPT !.fields[i] = f])
WithEnumVal(i, ev) == WithDef(IKind, [BaseDefs[IKind] EXCEPT !.values[i] = ev])
WithPField(i, sf) == WithDef(IP, [BaseDefs[IP] EXCEPT !.sfields[i] = sf])
WithMethod(i, m) == WithDef(ISvc, [BaseDefs[ISvc] EXCEPT !.methods[i] = m])
WithImports(imps) == [BaseWorld EXCEPT ![1].files[1].ast.imports = imps]
RecF == BaseDefs[IRec].fields
KindV == BaseDefs[IKind].values
PF == BaseDefs[IP].sfields
SvcM == BaseDefs[ISvc].methods
M(rule, name, world) == [rule |-> rule, name |-> name, world |-> world]

Mutants ==
    \* definitions
       UNION { { M("dup_def", BaseDefs[j].name, WithDefs(BaseDefs \o <<d>>)) :
                d \in {Enum(BaseDefs[j].name, <<EV("Z", "0")>>), Message(BaseDefs[j].name, <<>>, FALSE), Struct(BaseDefs[j].name, <<SF("x", B("bool"))>>)} }
               : j \in DOMAIN BaseDefs }
    \* message fields, every site
    \cup UNION { { M("dup_field", RecF[j].name, WithRecField(i, [RecF[i] EXCEPT !.name = RecF[j].name])) : j \in {k \in DOMAIN RecF : k < i} } : i \in DOMAIN RecF }
    \cup UNION { { M("dup_tag", RecF[i].name, WithRecField(i, [RecF[i] EXCEPT !.lit = RecF[j].lit])) : j \in {k \in DOMAIN RecF : k < i} } : i \in DOMAIN RecF }
    \cup { M("tag_zero", RecF[i].name, WithRecField(i, [RecF[i] EXCEPT !.lit = "0"])) : i \in DOMAIN RecF }
    \cup { M("tag_range", RecF[i].name, WithRecField(i, [RecF[i] EXCEPT !.lit = l])) : i \in DOMAIN RecF, l \in {"65536", "70000", "4294967296"} }
    \cup { M("unknown_type", RecF[i].name, WithRecField(i, [RecF[i] EXCEPT !.type = t])) : i \in DOMAIN RecF,
                t \in {Ref("Nope"), L(Ref("Nope")), Imp("pkgb", "Nope"), Imp("nopkg", "Ext"), L(Imp("nopkg", "Ext"))} }
    \cup { M("service_type", RecF[i].name, WithRecField(i, [RecF[i] EXCEPT !.type = t])) : i \in DOMAIN RecF, t \in {Ref("Svc"), L(Ref("Svc")), Ref("Svc2"), L(Ref("Svc2"))} }
    \* enums
    \cup UNION { { M("dup_enum_name", KindV[j].name, WithEnumVal(i, [KindV[i] EXCEPT !.name = KindV[j].name])) : j \in {k \in DOMAIN KindV : k < i} } : i \in DOMAIN KindV }
    \cup UNION { { M("dup_enum_num", KindV[i].name, WithEnumVal(i, [KindV[i] EXCEPT !.lit = KindV[j].lit])) : j \in {k \in DOMAIN KindV : k < i} } : i \in DOMAIN KindV }
    \cup { M("enum_no_zero", "Kind", WithEnumVal(1, [KindV[1] EXCEPT !.lit = l])) : l \in {"5", "70000"} }
    \cup { M("enum_range", KindV[i].name, WithEnumVal(i, [KindV[i] EXCEPT !.lit = l])) : i \in 2..Len(KindV), l \in {"2147483648", "4294967296", "9223372036854775808"} }
    \* structs
    \cup UNION { { M("dup_struct_field", PF[j].name, WithPField(i, [PF[i] EXCEPT !.name = PF[j].name])) : j \in {k \in DOMAIN PF : k < i} } : i \in DOMAIN PF }
    \cup { M("struct_nonvalue", PF[i].name, WithPField(i, [PF[i] EXCEPT !.type = t])) : i \in DOMAIN PF,
                t \in {TAny, TMsg, Ref("Sub"), Imp("pkgb", "Ext"), L(B("int32")), L(Ref("Kind"))} }
    \cup { M("unknown_type", PF[i].name, WithPField(i, [PF[i] EXCEPT !.type = t])) : i \in DOMAIN PF, t \in {Ref("Nope"), Imp("pkgb", "Nope")} }
    \cup { M("service_type", PF[i].name, WithPField(i, [PF[i] EXCEPT !.type = Ref("Svc")])) : i \in DOMAIN PF }
    \cup { M("struct_cycle", "P", WithPField(i, [PF[i] EXCEPT !.type = Ref("P")])) : i \in DOMAIN PF }
    \* methods
    \cup UNION { { M("dup_method", SvcM[j].name, WithMethod(i, [SvcM[i] EXCEPT !.name = SvcM[j].name])) : j \in {k \in DOMAIN SvcM : k < i} } : i \in DOMAIN SvcM }
    \cup { M("chan_nonmessage", SvcM[i].name, WithMethod(i, [SvcM[i] EXCEPT !.chan = c])) : i \in {5, 6, 7},
                c \in {ChIn(B("int32")), ChOut(Ref("Kind")), ChInOut(Ref("Sub"), Ref("P")), ChInOut(L(Ref("Sub")), Ref("Sub")), ChIn(TAny), ChOut(B("string"))} }
    \cup { M("method_input", SvcM[i].name, WithMethod(i, [SvcM[i] EXCEPT !.input = IOType(t)])) : i \in DOMAIN SvcM, t \in {B("int32"), Ref("Kind"), Ref("P"), L(Ref("Sub")), TAny, Ref("Svc2")} }
    \cup { M("method_output", SvcM[i].name, WithMethod(i, [SvcM[i] EXCEPT !.output = IOType(t), !.oneway = FALSE])) : i \in {1, 2, 3, 4, 8}, t \in {B("string"), Ref("Kind"), Ref("P"), L(Ref("Sub"))} }
    \cup { M("method_oneway", SvcM[i].name, WithMethod(i, [SvcM[i] EXCEPT !.oneway = TRUE])) : i \in {5, 6, 7} }
    \cup { M("method_chan_sub", SvcM[i].name, WithMethod(i, [SvcM[i] EXCEPT !.output = IOType(Ref("Svc2"))])) : i \in {5, 6, 7} }
    \cup { M("dup_field", "a", WithMethod(1, [SvcM[1] EXCEPT !.input.fields[2].name = "a"])),
           M("dup_tag", "type", WithMethod(1, [SvcM[1] EXCEPT !.input.fields[2].lit = "1"])),
           M("tag_zero", "c", WithMethod(1, [SvcM[1] EXCEPT !.output.fields[1].lit = "0"])),
           M("tag_range", "c", WithMethod(1, [SvcM[1] EXCEPT !.output.fields[1].lit = "65536"])),
           M("unknown_type", "c", WithMethod(1, [SvcM[1] EXCEPT !.output.fields[1].type = Ref("Nope")])),
           M("service_type", "a", WithMethod(1, [SvcM[1] EXCEPT !.input.fields[1].type = Ref("Svc2")])) }
    \* imports and options
    \cup { M("import_missing", "nopkg", WithImports(<<ImpDecl("pkgb", ""), ImpDecl("nopkg", "")>>)),
           M("dup_import", "pkgb", WithImports(<<ImpDecl("pkgb", ""), ImpDecl("pkgb", "")>>)),
           M("import_cycle", "pkga", WithImports(<<ImpDecl("pkgb", ""), ImpDecl("pkga", "")>>)),
           M("import_cycle", "pkga", [BaseWorld EXCEPT ![2] = PkgB(<<ImpDecl("pkga", "")>>)]),
           M("dup_option", "go_package", [BaseWorld EXCEPT ![1].files[1].ast.options = <<GoPkgOpt("pkga"), GoPkgOpt("pkga")>>]) }
    \* definitions in two files of one package
    \cup { M("dup_def", "Sub", [BaseWorld EXCEPT ![1].files = @ \o <<MkFile("more.spec", <<>>, <<>>, <<SubDef>>)>>]) }

\* mutual struct recursion needs two changes of the base, it is one broken rule at two sites
MutualCycle == M("struct_cycle", "P", WithDefs([BaseDefs EXCEPT ![IP] = [BaseDefs[IP] EXCEPT !.sfields[1].type = Ref("Q")]]))

\* cycles that are reached only through the second struct-typed field of a struct (the first one leads elsewhere)
ChainCycles == {
    M("struct_cycle", "P", WithDefs([BaseDefs EXCEPT ![IP] = [BaseDefs[IP] EXCEPT !.sfields[1].type = Imp("pkgb", "Pt"), !.sfields[6].type = Ref("Q")]])),
    M("struct_cycle", "P", WithDefs([BaseDefs EXCEPT ![IP] = [BaseDefs[IP] EXCEPT !.sfields[6].type = Ref("Q")],
                                                     ![IQ] = [BaseDefs[IQ] EXCEPT !.sfields[1].type = Imp("pkgb", "Pt"), !.sfields[2].type = Ref("P")]])) }

\* text that the lexer must refuse (C14: the compiler never exits successfully after a lexical error)
BadTexts == <<
    [name |-> "open-comment", raw |-> "/* never closed"],
    [name |-> "open-string", raw |-> "\"never closed"],
    [name |-> "bad-escape", raw |-> "\"bad \\q escape\""],
    [name |-> "bad-octal", raw |-> "08"],
    [name |-> "float", raw |-> "1.5"],
    [name |-> "char", raw |-> "'c'"],
    [name |-> "raw-string", raw |-> "`raw`"],
    [name |-> "at-sign", raw |-> "@"],
    [name |-> "huge-int", raw |-> "99999999999999999999"] >>

\* ------------------------------------------------------------------ the generator
VARIABLES case          \* [kind, world, ...]
svars == <<file, case>>

Accept(world, shape, nfiles, svc) == [verdict |-> "accept", shape |-> shape, nfiles |-> nfiles, svc |-> svc, world |-> world, rule |-> "", name |-> ""]

\* evolve (C16): version B is derived from version A by edits which keep the tags of surviving fields
EvoBases == <<
    <<F("a", B("int32"), "1"), F("type", B("string"), "2"), F("message", Ref("Sub"), "7"), F("options", L(B("int64")), "255"), F("struct", Ref("P"), "256")>>,
    <<F("b2", B("uint64"), "65535"), F("any", TAny, "1"), F("service", L(Ref("Sub")), "2"), F("x_1", Ref("Kind"), "1000"), F("import", B("bytes"), "7")>> >>
EvoNewFields == <<F("snake_case_name", B("float64"), "3"), F("UPPER", L(B("string")), "4"), F("mixedCase", Ref("Q"), "5"), F("subservice", TMsg, "6")>>

SInit ==
    /\ file = EmptyFile(FALSE, <<>>, FALSE, <<>>)
    /\ CASE Family = "single" ->
              \E s \in DOMAIN Shapes : \E i \in DOMAIN TypePool(Shapes[s]) :
                 LET shape == Shapes[s]
                     f == F(Names[(i % FieldNamePool) + 1].s, TypePool(shape)[i], TagPool[(i % Len(TagPool)) + 1])
                     nf == 1 + (i % 2)
                 IN case = [Accept(World(shape, nf, <<f>>, FALSE), shape, nf, FALSE) EXCEPT !.verdict = "accept"]
         [] Family = "multi" ->
              \E s \in DOMAIN Shapes, nf \in 1..2 : case = [verdict |-> "building", shape |-> Shapes[s], nfiles |-> nf, svc |-> FALSE,
                                                            world |-> <<>>, rule |-> "", name |-> "", fields |-> <<>>]
         [] Family = "svc" ->
              \E s \in DOMAIN Shapes, nf \in 1..2 :
                 case = Accept(World(Shapes[s], nf, <<F("a", B("int32"), "1"), F("service", Ref("Sub"), "2")>>, TRUE), Shapes[s], nf, TRUE)
         [] Family = "either" ->
              \E i \in DOMAIN EitherTypes :
                 case = [Accept(World("none", 1, <<F("a", EitherTypes[i], "1")>>, FALSE), "none", 1, FALSE) EXCEPT !.verdict = "either"]
         [] Family = "evolve" ->
              \E s \in {"none", "plain"}, bi \in DOMAIN EvoBases :
                 LET base == EvoBases[bi] \o (IF s = "plain" THEN <<F("ext", Imp("pkgb", "Ext"), "300")>> ELSE <<>>)
                 IN case = [verdict |-> "evolving", shape |-> s, nfiles |-> 1, svc |-> FALSE, world |-> World(s, 1, base, FALSE), rule |-> "", name |-> "",
                            a |-> base, b |-> base, edits |-> <<>>]
         [] Family = "lexical" ->
              \* one piece of text that is not a token of the language, inserted at any token boundary of the base schema
              \E b \in DOMAIN BadTexts, pos \in 0..Len(FileTokens(BaseWorld[1].files[1].ast)) :
                 case = [verdict |-> "reject", shape |-> "plain", nfiles |-> 1, svc |-> TRUE, world |-> BaseWorld, rule |-> "lexical",
                         name |-> BadTexts[b].name, lex |-> [pos |-> pos, raw |-> BadTexts[b].raw]]
         [] Family = "mutant" ->
              \E m \in Mutants \cup {MutualCycle} \cup ChainCycles :
                 case = [verdict |-> "reject", shape |-> "plain", nfiles |-> 1, svc |-> TRUE, world |-> m.world, rule |-> m.rule, name |-> m.name]

SwapAt(fs, i, j) == [fs EXCEPT ![i] = fs[j], ![j] = fs[i]]
EvoNext ==
    /\ Family = "evolve" /\ case.verdict \in {"evolving", "accept"} /\ Len(case.edits) < MaxFields
    /\ UNCHANGED file
    /\ LET fs == case.b IN
       \/ \E i \in DOMAIN fs : Len(fs) > 1
             /\ case' = [case EXCEPT !.verdict = "accept", !.b = RemoveAt(fs, i), !.edits = Append(@, "remove " \o fs[i].name)]
       \/ \E i \in DOMAIN fs, n \in 1..FieldNamePool :
             /\ \A j \in DOMAIN fs : fs[j].name # Names[n].s
             /\ \A j \in DOMAIN case.a : case.a[j].name # Names[n].s
             /\ case' = [case EXCEPT !.verdict = "accept", !.b = [fs EXCEPT ![i].name = Names[n].s], !.edits = Append(@, "rename " \o fs[i].name)]
       \/ \E i, j \in DOMAIN fs : i < j
             /\ case' = [case EXCEPT !.verdict = "accept", !.b = SwapAt(fs, i, j), !.edits = Append(@, "swap " \o fs[i].name \o " " \o fs[j].name)]
       \/ \E k \in DOMAIN EvoNewFields, pos \in 0..Len(fs) :
             /\ \A j \in DOMAIN fs : fs[j].name # EvoNewFields[k].name /\ fs[j].lit # EvoNewFields[k].lit
             /\ \A j \in DOMAIN case.a : case.a[j].lit # EvoNewFields[k].lit
             /\ case' = [case EXCEPT !.verdict = "accept", !.b = SubSeq(fs, 1, pos) \o <<EvoNewFields[k]>> \o SubSeq(fs, pos + 1, Len(fs)),
                                      !.edits = Append(@, "add " \o EvoNewFields[k].name)]

\* multi: append one field with an unused name and an unused tag, any type of the pool
SNext == EvoNext \/
    /\ Family = "multi" /\ case.verdict = "building"
    /\ UNCHANGED file
    /\ IF Len(case.fields) = MaxFields
       THEN case' = [Accept(World(case.shape, case.nfiles, case.fields, FALSE), case.shape, case.nfiles, FALSE) EXCEPT !.verdict = "accept"]
       ELSE \E i \in DOMAIN TypePool(case.shape), n \in 1..FieldNamePool, t \in DOMAIN TagPool :
              /\ \A j \in DOMAIN case.fields : case.fields[j].name # Names[n].s /\ case.fields[j].lit # TagPool[t]
              /\ case' = [case EXCEPT !.fields = Append(@, F(Names[n].s, TypePool(case.shape)[i], TagPool[t]))]

SSpec == SInit /\ [][SNext]_svars

Complete == case.verdict \notin {"building", "evolving"}

\* ------------------------------------------------------------------ properties of the specification itself
\* every generated schema of the accepting families breaks no rule; every mutant breaks exactly the rule of its operator at the named element
VerdictConsistent ==
    Complete =>
      LET vs == Violations(case.world) IN
      CASE case.rule = "lexical" -> vs = {}        \* the base schema is valid: only the inserted text is wrong
        [] case.verdict = "accept" -> vs = {} /\ (Family = "evolve" => Violations(World(case.shape, 1, case.b, FALSE)) = {})
        [] case.verdict = "either" -> vs = {}
        [] case.verdict = "reject" -> V(case.rule, case.name) \in vs /\ \A x \in vs : x.rule = case.rule
\* tags of an accepted message are distinct, so the dynamic value is well defined
TagsDistinct ==
    (Complete /\ case.verdict = "accept") =>
       LET fs == FindDef(PkgDefs(case.world[1]), "Rec").fields IN \A i, j \in DOMAIN fs : i # j => fs[i].lit # fs[j].lit

\* ------------------------------------------------------------------ output
Files(world) == [p \in DOMAIN world |-> [id |-> world[p].id,
                    files |-> [i \in DOMAIN world[p].files |-> [name |-> world[p].files[i].name, tokens |-> FileTokens(world[p].files[i].ast),
                                                               ast |-> world[p].files[i].ast]]]]
SemOf(world) ==
    LET n == Len(FindDef(PkgDefs(world[1]), "Rec").fields) IN
    [msgs |-> <<MsgSem(world, "Rec", RunsFor(n)), MsgSem(world, "Sub", <<<<1, 1>>, <<2, 0>>>>)>> \o MethodSems(world),
     structs |-> <<StructSem(world, "P"), StructSem(world, "Q")>>,
     enums |-> <<EnumSem(KindDef)>>]
NoSem == [msgs |-> <<>>, structs |-> <<>>, enums |-> <<>>]
SemRecord == IF case.verdict = "accept" THEN SemOf(case.world) ELSE NoSem

\* C16: what a reader compiled from version B of the schema sees in a message written under version A:
\* a field of B whose tag A declares reads A's value, any other field of B is unset
EvolveRecord ==
    IF Family # "evolve" THEN [pkgs |-> <<>>]
    ELSE LET wb == World(case.shape, 1, case.b, FALSE)
             afs == case.a
             bfs == case.b
             aruns == MsgSem(case.world, "Rec", RunsFor(Len(afs))).runs
         IN [pkgs |-> Files(wb), sem |-> SemOf(wb), edits |-> case.edits,
             fields |-> [i \in DOMAIN bfs |-> [name |-> bfs[i].name, go |-> GoName(bfs[i].name), tag |-> LitNum(bfs[i].lit), type |-> bfs[i].type]],
             runs |-> [r \in DOMAIN aruns |->
                  [bvals |-> [i \in DOMAIN bfs |->
                       LET S == {j \in DOMAIN afs : afs[j].lit = bfs[i].lit}
                       IN IF S = {} THEN Unset ELSE aruns[r].vals[CHOOSE j \in S : TRUE]]]]]
\* lexical family: the bad text goes in front of token pos + 1 of the compiled file
LexFiles ==
    LET fs == Files(case.world)
        toks == fs[1].files[1].tokens
        bad == [raw |-> case.lex.raw]
    IN [fs EXCEPT ![1].files[1].tokens = SubSeq(toks, 1, case.lex.pos) \o <<bad>> \o SubSeq(toks, case.lex.pos + 1, Len(toks))]
SRecord == [verdict |-> case.verdict, rule |-> case.rule, name |-> case.name, shape |-> case.shape, nfiles |-> case.nfiles, svc |-> case.svc,
            pkgs |-> IF Family = "lexical" THEN LexFiles ELSE Files(case.world), sem |-> SemRecord, names |-> Names, evolve |-> EvolveRecord]
SEmit == Complete => PrintT(ToJson(SRecord))
=============================================================================
