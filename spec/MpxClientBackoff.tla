------------------------- MODULE MpxClientBackoff -------------------------
(* Prints the specification's back-off table (milliseconds for attempts 2..200) for comparison with the implementation. *)
EXTENDS MpxClient, Json, Sequences
ASSUME BackoffOK
ASSUME PrintT(ToJson([table |-> [a \in 1..199 |-> Backoff(a + 1)]]))
VARIABLE x
BInit == x = 0
BNext == x' = x
=============================================================================
