SPECIFICATION Spec
CONSTANTS
  Mode = "short"
  Level = 2
INVARIANTS RoundTripInv CodecInverse WidenNarrow AgreeInv LocalInv TagIndependence
CONSTRAINT Emit
